#!/bin/sh
# tools/seeds_regress.sh [tier]: re-runs every stored seed against the checks recorded in its meta.json; prints MISSED for a seed no check reports
cd "$(dirname "$0")/.." || exit 2
tier=${1:-quick}
for d in seeded/*/; do
  id=$(basename $d)
  det=$(python3 -c "import json;print(' '.join(json.load(open('$d/meta.json'))['detected_by']))")
  out=$(tools/seedtest.sh /verif/$d/patch.diff $tier $det 2>&1)
  if echo "$out" | grep -q "rc=1"; then echo "$id caught by: $(echo "$out" | grep 'rc=1' | cut -d' ' -f1 | tr '\n' ' ')"; else echo "$id MISSED"; echo "$out" | tail -3; fi
done
