# Registry of claimed properties (executed by gen_manifest.py).
NA_REASONS = {}

claim("C01", "exploration", "bounded exhaustive input enumeration on the real code against a reference decoder (small-scope model checking)",
      "Every encoder output (dot_bracket, fcfs, each member of all_dot_brackets) is decoded by an independent per-type stack decoder for every "
      "pairing on up to 10 (quick) / 12 (thorough) positions, every chord diagram of up to 4/6 stems with stem lengths and gaps, ladders up to "
      "30 levels, and every balanced string up to length 8/10; holds for all members of these families, nothing claimed beyond the bounds.",
      "Trusts CPython and the harness's own decoder (ref2d.decode); CBC is the MILP back-end.", "DESIGN.md 3/C01")
