# Registry of claimed properties (executed by gen_manifest.py).
NA_REASONS = {}

claim("C01", "exploration", "bounded exhaustive input enumeration on the real code against a reference decoder (small-scope model checking)",
      "Every encoder output (dot_bracket, fcfs, each member of all_dot_brackets) is decoded by an independent per-type stack decoder for every "
      "pairing on up to 10 (quick) / 12 (thorough) positions, every chord diagram of up to 4/6 stems with stem lengths and gaps, ladders up to "
      "30 levels, and every balanced string up to length 8/10 (also through the file readers for length <= 6), sequences over letters other than ACGU and structures with 11-21 stems; holds for all members of these families, nothing claimed beyond the bounds.",
      "Trusts CPython and the harness's own decoder (ref2d.decode); CBC is the MILP back-end.", "DESIGN.md 3/C01")

claim("C02", "exploration", "bounded exhaustive input enumeration on the real code against an exact branch-and-bound optimiser (small-scope model checking)",
      "For every pairing on up to 10/12 positions, every chord diagram of up to 4/6 stems with stem lengths up to 3 and ladders up to 11/12 "
      "mutually crossing stems, the decoded optimal notation is proper, its objective equals the exact optimum over all proper level "
      "assignments, and the three corollaries hold; the same for structures with 11-21 stems (hairpins around a small knot; a first-come-first-served baseline that is not an encoding of the structure is reported as such); and for every knotted chord diagram of 2-3 (thorough 4) stems x lengths {1,2,3} asked AFTER other calls: an explicit conversion without / with a failing solver, the other notations and elements of the same object, sibling objects with the same crossing pattern under other stem lengths or gaps.",
      "Only the objective value is compared. Trusts CBC to solve the MILP it is given and the harness's branch-and-bound.", "DESIGN.md 3/C02")

claim("C16", "exploration", "bounded exhaustive input enumeration on the real code against an independent backtracking enumeration of greedy-stable colourings",
      "For every pairing on up to 10/11 positions, every chord diagram of up to 4/6 stems and explicit 7/8-stem conflict graphs, the decoded "
      "members of all_dot_brackets equal, as a set, the greedy-stable proper colourings (product over components), without repetition, "
      "containing the optimal and FCFS notation; the same for every knotted pairing on up to 8/9 positions pushed through the 3D route (synthetic structures "
      "in 1-4 strands: Mapping2D3D.all_dot_brackets, adapter.extract_secondary_structure_from_external, adapter.main --all-dot-brackets) and for 6/15 corpus "
      "structures through annotator.extract_secondary_structure(all_dot_brackets=True) and annotator.main -a; on the 3D route the list of the mapping's own BPSEQ is asked after and before the mapping's list, and the mapping's list twice.",
      "Groups of crossing stems have at most 8 members. Trusts the harness's colouring enumerator.", "DESIGN.md 3/C16")

claim("C07", "exploration", "bounded exhaustive input enumeration on the real code against an independent element decomposition (small-scope model checking)",
      "For every pairing on up to 10/12 positions, chord diagrams of up to 4/5 stems and ladders, stems/hairpins/loops/strand coverage/slices "
      "of BpSeq.elements satisfy the property's definitions, and motif_extractor prints the same elements for --bpseq and --dbn input (also when the "
      "input uses other bracket levels than the library would choose) with and without its two filter flags.",
      "Strand structure slices are compared with the object's own dot_bracket.", "DESIGN.md 3/C07")

claim("C12", "model_checking", "explicit-state breadth-first search over call histories on live objects with canonical state hashing, against fresh-object reference",
      "All call sequences up to depth 4 (quick) / 8 (thorough) over 10 public operations on a graph of up to 3 live BpSeq objects, for every "
      "root pairing on up to 6/7 positions and small chord diagrams: every answer equals the answer of a fresh copy and no object in the graph "
      "ever changes; derivations equal their reference values; plus histories of depth 2/3 over the derivations on every chord diagram of 3-4 stems of "
      "lengths 1-2 (derived objects as receivers); plus twin objects - the same knotted pairing under other letters (incl. letters outside ACGU) and under one more nucleotide - interleaved in one graph, and crossing stems of 100-300 pairs.",
      "State merging relies on the canonical form (entries, pairs, caches, aliasing) determining all futures; deepcopy is trusted.", "DESIGN.md 3/C12")

claim("C13", "model_checking", "exhaustive environment-answer and fault-sequence exploration of the solver seam on the real code, each execution replayed",
      "All 49 solver configurations (incl. solvers that leave every variable unassigned, leave a proper non-FCFS assignment behind, or claim an optimum they do not have, and the real CBC under an iteration limit of 0) and all fault scripts of length <=2/3 (3 only up to 9 positions) over 7 solver behaviours, on every knotted pairing on up to 8/10 "
      "positions and chord diagrams of up to 3/4 stems: the conversion never raises, is lossless, equals FCFS whenever no optimum was "
      "delivered and is optimal otherwise (also for sequences over letters other than ACGU); BpSeq.fcfs itself is compared with the reference first-come-first-served assignment; after every fault script the object is asked for its dot_bracket, which must be optimal.",
      "The solver is substituted at pulp module seams (pulp.HiGHS_CMD, pulp.LpSolverDefault, explicit argument); HiGHS itself is absent.", "DESIGN.md 3/C13")

claim("C14", "model_checking", "deviation-bounded exploration of set-iteration orders through a module seam, bound to real interpreters by a cross-process hash-seed battery",
      "Every alternative iteration order (d<=1 quick, d<=2 thorough) of every seed-dependent set iterated by rnapolis.common/tertiary while "
      "producing the 2D outputs is executed; and a battery of SHA-256 digests of all library and CLI outputs on a fixed input list is "
      "compared across fresh interpreters with PYTHONHASHSEED in {0,1,2,3,random} (quick) / {0..15,random,random} (thorough) and across "
      "repeated in-process calls, in reversed processing order and - for the 2D part - in 8 slices run in interpreters of their own (another history of earlier conversions); inputs include generated structures whose residues fit several bases equally well. "
      "A violation is reported only when two real runs differ.",
      "Hash seeds are a finite list; set displays bypass the seam (listed by an AST pass); KD-tree pair sets contain int tuples whose order does not depend on the seed.",
      "DESIGN.md 3/C14")

claim("C20", "exploration", "bounded exhaustive enumeration of documents (deviation-bounded) x all edit operations on the real code, judged through an independent CIF tokenizer",
      "Every generated document within 2 (quick) / 3 (thorough, reduced list) deviations of the base document and the corpus mmCIF files, under every "
      "copy (category, from, to) and replace (category, item, alphabet) choice incl. absent and new ones: only the target item changes, "
      "copy/replace semantics hold, absent category/source leaves the text untouched, and the CLI writes the library's result (also for mixed-case category and item names, and - when nothing is edited - for documents ending in blank lines, trailing blanks or no newline).",
      "Trusts the harness tokenizer mc/cif.py; category position in the file and too-short alphabets are outside the property.", "DESIGN.md 3/C20")

claim("C19", "exploration", "exhaustive enumeration of label strings, line sequences and DSSR documents on the real code against a regular-expression grammar",
      "unify_classification on every string up to length 5 (quick) / 6 (thorough) over the 19-symbol FR3D alphabet; every sequence of up to 3/4 lines "
      "from a 28-line alphabet (incl. residues told apart by insertion code only) through parse_fr3d_output; every DSSR document with <=2 pairs and <=1 stack over the stated name and LW alphabets (single-pair documents also against a twin structure with the same positions and other residue names, in the same process): "
      "never raises, certain labels filed exactly, underivable labels kept as 'other', malformed lines skipped, DSSR pairs/stacks kept exactly when resolvable and valid.",
      "Grammar in mc/ref/refadapter.py written from the property text: any letter case for the Leontis-Westhof core only; stacking and backbone labels as spelled (0BPH is unrecognised); the remaining ambiguous labels (e.g. 's55a') only have to yield exactly one interaction.", "DESIGN.md 3/C19")

claim("C09", "model_checking", "transition-system closure (BFS) over the real write/parse functions from every deviation-bounded start table, invariant checked in every state, plus independent column reader",
      "From every start table within 2 field deviations (thorough: 3 over layout-critical fields) of the base table, in both start formats, all chains of "
      "write_pdb/parse_pdb_atoms/write_cif/parse_cif_atoms up to depth 2 (quick) / 3 (thorough) reach only states whose PDB view equals the start table; "
      "every written PDB text obeys the 80-column layout, MODEL/ENDMDL bracketing and TER-after-every-chain; start tables include model numbers up to 9999 and, "
      "through splitter.main, mmCIF input whose label ids differ from the author ids; a blank chain identifier is a member of the PDB-start tables and TER columns are checked strictly; single-chain tables (with a second model: NMR layout) and pre-2008 atom names (O3*, C5M) are members.",
      "Independent emitters and column reader in mc/enumio.py; values are within PDB field widths.", "DESIGN.md 3/C09")

claim("C10", "exploration", "exhaustive enumeration of a finite product of atom tables on the real code against an independent fit/feasibility/renaming oracle",
      "For the full product of chain counts {1,2,3,62,63} x id lengths x residue-number classes x first serials x insertion codes x models x atoms per "
      "residue x extra fields x source format, plus a 10000-residue chain and (thorough) >99999-atom tables: can_write_pdb agrees with the limits, fitting "
      "tables are returned unchanged, unfittable ones raise ValueError, and every fitted table is within limits, keeps atom order and fields, renames "
      "chains/residues one-to-one preserving grouping and survives write_pdb + parse_pdb_atoms; the same on row subsets of composite tables (mask, iloc, "
      "groupby), on a 99990-atom table with interleaved chains, and through splitter.main / unifier.main -f PDB (a file per model that is the model up to a "
      "proper renaming - unchanged when it fits - or no file and an error message exactly when no fit exists); tables whose last serial is exactly 99999 / 100000 and mmCIF tables with label ids differing from the author ids or without auth_atom_id / auth_comp_id are members; unifier.main is also run on three files that disagree on residue numbers.",
      "Tables are built by the library's own parsers from independently emitted text; PDB-derived tables are within limits by construction.", "DESIGN.md 3/C10")

claim("C08", "exploration", "deviation-bounded exhaustive enumeration of abstract atom tables x formats x emitter options x requested models on the real reader, expectation computed from the abstract table",
      "Every table within 2 deviations (thorough: 3 on a reduced list) of the base table - models sharing identities, negative numbers, insertion codes, "
      "same-name residues told apart by insertion code only or by the chain only, models numbered from 0 or written out of order or interleaved, altlocs, repeated names, sub-0.5 A neighbours (also in a later model only), HETATM, long names, "
      "absent occupancy, both null markers, label != auth - emitted as PDB and mmCIF and "
      "read for every requested model (d<=1 tables also as short-line / CRLF / extra-record PDB texts and reversed / quoted / extra-column mmCIF loops): only the requested model's atoms, each once, highest-occupancy copy, clash rule, residues in file order with exact identity and coordinates.",
      "Absent occupancy combined with duplicates/close atoms is executed but not judged; ties in occupancy admit either copy.", "DESIGN.md 3/C08")

claim("C15", "exploration", "deviation-bounded exhaustive enumeration of atom tables and corpus structures, four-way differential reading on the real code against the abstract table",
      "Every table within 1 (quick, plus a reduced set of pairs) / 2 (thorough) deviations of a 14-nucleotide duplex and every single-conformer corpus "
      "structure, emitted in both formats by an independent emitter: both reader generations report the residues, atoms and coordinates of the abstract "
      "table, agree with the O3'-P < 2.4 A reference on connectivity (thresholds bracketed at 2.39/2.395/2.405/2.41) and on connected segments, and agree on |chi| to 1e-9; d<=1 tables also in four other legal text presentations per format.",
      "One model, no altlocs; chi by magnitude only; structures not representable as PDB are read as mmCIF only.", "DESIGN.md 3/C15")

claim("C18", "exploration", "exhaustive enumeration of a construction lattice (phi x bond lengths x bond angles x rigid motions) and of all corpus torsions on the real code against a reference formula",
      "On every lattice point (74 phi values x 8/27 length triples x 9/25 angle pairs x 27 rotations x 2 translations) both torsion functions are compared with the "
      "constructed phi (value, range, reversal, mirroring, mutual agreement), and every backbone/chi torsion of 7/14 corpus structures through all four "
      "code paths with the reference formula, including every alpha..zeta and chi cell of the v2 torsion table (also for structures relabelled to insertion-code "
      "pairs/triples), chi asked before and after annotating the same object, and torsions of structures translated to fill the 8-column PDB coordinate fields against the dihedrals of the written coordinates; the sign inversion of tertiary_v2 is a recorded known finding, every other deviation is a violation.",
      "Reference formula and NeRF construction in mc/ref/reftorsion.py (cross-checked against each other); non-degenerate inputs only.", "DESIGN.md 3/C18")

claim("C17", "exploration", "exhaustive enumeration of a contact lattice and corpus variants under all 32 option combinations on the real code against an O(n^2) enumeration of the definition",
      "3,500+ two-residue placements bracketing every threshold (sum, sum+0.5) from both sides for all C/N/O/P type pairs, occupancy pairs and residue "
      "relations, and corpus structures (as is, compressed, jittered), each under all 32 option combinations: the clash list equals the definition as a set, "
      "each pair once; clashfinder.main's printed maxima equal the maxima over the listed clashes and the CSV lists the same clashes (mmCIF with and "
      "without exptl/refine metadata, and PDB input); a report family of four mutually clashing residues under six identity modes (insertion codes, two chains, negative numbers, two residues at one position) exercises the aggregation and is also judged by the reference enumeration.",
      "Radii read by name from module constants; nucleotide classification taken from Residue3D.is_nucleotide; absent occupancy judged only under ignore-occupancy.", "DESIGN.md 3/C17")

claim("C03", "exploration", "exhaustive enumeration of placement lattices and corpus variant families on the real annotator, plus exhaustive/deviation-bounded exploration of KD-tree pair orders through a module seam, against an O(n^2) reference model",
      "On every structure of the two-nucleotide lattice (15.5k quick / ~600k thorough), the three-nucleotide competition family, every corpus variant "
      "(residue/atom deletions, jitter fields, cube rotations) and under every explored processing order of the hydrogen-bond candidate pairs: reported pairs "
      "are supported by >= 2 distinct contacts on their edges with the right cis/trans letter, no edge is used twice, and every pair demanded by the definition is reported or blocked by a taken edge - for find_pairs and for the pairs inside extract_base_interactions; "
      "lattice residues rotate through identity modes (descending numbers, insertion codes, numbers around zero), modified-residue names and backbone-less (base + C1') variants; one structure object holding two models is queried model by model; 297 placements with decision margins of 2e-5..2e-4 are judged at full precision.",
      "Continuous geometry is covered only on the stated lattices/families; margins below 1e-6 are undecided; reference tables are the harness's own copies.", "DESIGN.md 3/C03, 5.1")

claim("C04", "exploration", "exhaustive enumeration of a stacking placement lattice and corpus variant families on the real annotator against a two-sided geometric reference",
      "On every structure of the stacking lattice (62k quick / ~400k thorough; rises bracket 6 A, tilts bracket 35 degrees, offsets bracket 45 degrees), the coplanar "
      "pair lattice and every corpus variant: the reported stackings lie between the directed and the undirected reading of the definition, carry the "
      "right label group, appear once and list the lower residue first; one structure object holding two models of different geometry answers for each model separately.",
      "Two-sided oracle because the property leaves the vector direction open; up/down choice within a label group not checked.", "DESIGN.md 3/C04, 5.1")

claim("C11", "exploration", "invariant checking on every annotation produced by the exhaustive lattice/corpus/schedule explorations of C03 and C04, all models of multi-model files, and the CSV/JSON writers",
      "On every annotation of the pair lattice, stacking lattice, three-nucleotide family, corpus variants, all models of the NMR files and every explored pair order: "
      "no repeats, no self-interactions, only residues of the analysed model, orientation and sorting, Saenger exactly per the 28-class table, BPh/BR soundness, "
      "class implied by the contacts, one class per ordered residue pair and kind; CSV and JSON list the same interactions; one structure object holding two models (numbered 1/2, 0/1 or 5/2) is annotated model by model.",
      "Saenger asserted for upper-case A/C/G/U/T only; BPh/BR class check is liberal.", "DESIGN.md 3/C11, 5.1")

claim("C05", "exploration", "exhaustive enumeration of a finite transformation family (d<=2) over corpus and lattice structures on the real reader+annotator, differential oracle with margin measurement by a reference model",
      "Every single transformation and every cross-group pair (rigid motions incl. 23 cube / 60 icosahedral rotations and +-500 A translations, atom order, "
      "order-preserving relabelings, PDB instead of mmCIF) applied to every corpus structure and to lattice structures with interactions leaves base pairs, "
      "stackings, BPh, BR, BPSEQ, dot-bracket and extended dot-bracket unchanged up to the renaming; structures with a decision margin below 1e-6 are undecided. "
      "297 two-nucleotide placements with margins of 2e-5..2e-4 are moved in memory by 59 icosahedral rotations; lattice structures with two alternate "
      "conformers of a residue are annotated identically as PDB and as mmCIF; 160 exactly aligned placements (bases straight above / below each other) are moved by general rotations.",
      "Format comparisons use harness-emitted texts from one abstract atom list; rigid+format pairs use decimal-exact motions on the coordinate strings.", "DESIGN.md 3/C05, 5.1")

claim("C06", "exploration", "exhaustive enumeration of all entry sequences up to length 2/3 over a finite entry alphabet on three host structures on the real mapping code, against an independent oracle",
      "For three hosts (two chains; gap with '?' placeholders; non-nucleotide group), with and without gap detection, every sequence of up to 2 (quick) / 3 "
      "(thorough, stated restriction) entries over {20 ordered residue pairs incl. an absent residue} x {3-4 LW classes} x {no/table Saenger, XIX on letters defining no class}, and the own annotation of 6/11 corpus files with variations: BPSEQ numbering and "
      "letters, symmetric matching taken from canonical input pairs with conflict-free pairs kept, per-strand dot-bracket, balanced full-length extended rows "
      "encoding every distinct input pair exactly once, all_dot_brackets members, and the adapter path returning the same texts (seven hosts: the gap in the middle, right behind the first or right before the last nucleotide; a chain returning after another chain; an abasic first nucleotide named '?').",
      "Nucleotide classification and one-letter names are taken from the structure.", "DESIGN.md 3/C06")
