# Registry of claimed properties (executed by gen_manifest.py).
NA_REASONS = {}

claim("C01", "exploration", "bounded exhaustive input enumeration on the real code against a reference decoder (small-scope model checking)",
      "Every encoder output (dot_bracket, fcfs, each member of all_dot_brackets) is decoded by an independent per-type stack decoder for every "
      "pairing on up to 10 (quick) / 12 (thorough) positions, every chord diagram of up to 4/6 stems with stem lengths and gaps, ladders up to "
      "30 levels, and every balanced string up to length 8/10; holds for all members of these families, nothing claimed beyond the bounds.",
      "Trusts CPython and the harness's own decoder (ref2d.decode); CBC is the MILP back-end.", "DESIGN.md 3/C01")

claim("C02", "exploration", "bounded exhaustive input enumeration on the real code against an exact branch-and-bound optimiser (small-scope model checking)",
      "For every pairing on up to 10/12 positions, every chord diagram of up to 4/6 stems with stem lengths up to 3 and ladders up to 8/12 "
      "mutually crossing stems, the decoded optimal notation is proper, its objective equals the exact optimum over all proper level "
      "assignments, and the three corollaries hold.",
      "Only the objective value is compared. Trusts CBC to solve the MILP it is given and the harness's branch-and-bound.", "DESIGN.md 3/C02")

claim("C16", "exploration", "bounded exhaustive input enumeration on the real code against an independent backtracking enumeration of greedy-stable colourings",
      "For every pairing on up to 10/11 positions, every chord diagram of up to 4/6 stems and explicit 7/8-stem conflict graphs, the decoded "
      "members of all_dot_brackets equal, as a set, the greedy-stable proper colourings (product over components), without repetition, "
      "containing the optimal and FCFS notation.",
      "Groups of crossing stems have at most 8 members. Trusts the harness's colouring enumerator.", "DESIGN.md 3/C16")

claim("C07", "exploration", "bounded exhaustive input enumeration on the real code against an independent element decomposition (small-scope model checking)",
      "For every pairing on up to 10/12 positions, chord diagrams of up to 4/5 stems and ladders, stems/hairpins/loops/strand coverage/slices "
      "of BpSeq.elements satisfy the property's definitions, and motif_extractor prints the same elements.",
      "Strand structure slices are compared with the object's own dot_bracket.", "DESIGN.md 3/C07")
