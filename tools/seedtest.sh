#!/bin/sh
# tools/seedtest.sh <patch.diff> <tier> <property ids...>
# Applies the patch to a scratch copy of /repo/src (never to /repo), runs the given checks against it via RNAPOLIS_SRC, removes the copy.
patch=$1; tier=$2; shift 2
d=$(mktemp -d /tmp/seedrun-XXXXXX)
cp -r /repo/src $d/src
( cd $d && patch -s -p1 < "$patch" ) || { echo "PATCH FAILED"; rm -rf $d; exit 3; }
cd "$(dirname "$0")/.."
for id in "$@"; do
  out=$(RNAPOLIS_SRC=$d/src ./check $id --tier $tier 2>&1); rc=$?
  echo "$id rc=$rc $(echo "$out" | grep -c '^VIOLATION') violation line(s)"
  echo "$out" | grep -A1 '^VIOLATION' | grep 'signature' | head -4
  [ $rc -ge 2 ] && echo "$out" | tail -5
done
rm -rf $d
