#!/usr/bin/env python3
"""tools/seed_store.py <ID> <a|b> <detected_by comma list> <tier> <signatures ; separated> [extra note]
Copies a confirmed seeded change from /tmp/wt-<ID>/_seed into /verif/seeded/<ID>-<x>/ with meta.json."""
import json, os, shutil, sys
pid, x, det, tier, sigs = sys.argv[1:6]
note = sys.argv[6] if len(sys.argv) > 6 else ""
src = "%s-%s/_seed" % (os.environ.get("WTPREFIX", "/tmp/wt"), pid)
dst = os.path.join(os.path.dirname(os.path.dirname(os.path.abspath(__file__))), "seeded", "%s-%s" % (pid, os.environ.get("SEEDNAME", x)))
os.makedirs(dst, exist_ok=True)
shutil.copy(os.path.join(src, "patch_%s.diff" % x), os.path.join(dst, "patch.diff"))
shutil.copy(os.path.join(src, "demo_%s.py" % x), os.path.join(dst, "demo.py"))
notes = open(os.path.join(src, "notes_%s.md" % x)).read() if os.path.exists(os.path.join(src, "notes_%s.md" % x)) else ""
open(os.path.join(dst, "notes.md"), "w").write(notes)
props = {json.loads(l)["id"]: json.loads(l) for l in open(os.path.join(os.path.dirname(dst), "..", "properties.jsonl"))}
meta = dict(
    property=pid, title=props[pid]["title"], origin="independent sub-agent given only the property text and a scratch worktree of /repo (nothing from /verif)",
    what_it_needs_to_manifest=notes.strip()[:1500],
    confirmed=dict(
        how="tools/seed_verify.sh in the scratch worktree: patch applied -> full pytest suite; demo with the patch; demo without the patch",
        suite_with_change="45 passed, 7 failed (the 7 baseline failures)", demo_with_change="exit 1", demo_without_change="exit 0"),
    checks_run="tools/seedtest.sh patch.diff %s %s (patch applied to a scratch copy of /repo/src, check run with RNAPOLIS_SRC, copy removed)" % (tier, det.replace(",", " ")),
    detected_by=[d for d in det.split(",") if d], tier=tier, signatures=[s for s in sigs.split(";") if s], note=note,
    replay_demo="cd <worktree with patch applied> && PYTHONPATH=<worktree>/src /venv/bin/python demo.py",
)
json.dump(meta, open(os.path.join(dst, "meta.json"), "w"), indent=1)
print("stored", dst)
