#!/bin/sh
# tools/wave_store.sh <prefix> "<letters>" [ids...]: runs the property's own quick check (plus the checks listed in <prefix>-<ID>/_seed/also_<x>) against
# every seed of a wave and stores the seed under seeded/<ID>-<x>/ with what reported it. Prints MISSED for a seed no check reports (not stored).
prefix=$1; letters=$2; shift 2
ids="$@"; [ -z "$ids" ] && ids="C01 C02 C03 C04 C05 C06 C07 C08 C09 C10 C11 C12 C13 C14 C15 C16 C17 C18 C19 C20"
cd "$(dirname "$0")/.." || exit 2
for id in $ids; do
  for x in $letters; do
    p=$prefix-$id/_seed/patch_$x.diff
    [ -f $p ] || continue
    also=""; [ -f $prefix-$id/_seed/also_$x ] && also=$(cat $prefix-$id/_seed/also_$x)
    out=$(tools/seedtest.sh $p quick $id $also 2>&1)
    det=$(echo "$out" | grep 'rc=1' | cut -d' ' -f1 | tr '\n' ',' | sed 's/,$//')
    sigs=$(echo "$out" | grep 'signature=' | sed 's/.*signature=\([^ ]*\) .*/\1/' | head -2 | tr '\n' ';' | sed 's/;$//')
    if [ -z "$det" ]; then echo "$id-$x MISSED"; echo "$out" | tail -3; continue; fi
    note=""; [ -f $prefix-$id/_seed/note_$x ] && note=$(cat $prefix-$id/_seed/note_$x)
    WTPREFIX=$prefix SEEDNAME=$x python3 tools/seed_store.py $id $x "$det" quick "$sigs" "$note" > /dev/null && echo "$id-$x stored: $det | $sigs"
  done
done
