#!/usr/bin/env python3
"""tools/design_table.py <letters...>: markdown rows (seed | change | reported by | signatures | remark) for the stored seeds with these letters."""
import json, os, sys
here = os.path.dirname(os.path.dirname(os.path.abspath(__file__)))
letters = sys.argv[1:]
print("| seed | change (first line of the author's notes) | reported by (quick) | signatures | remark |")
print("|---|---|---|---|---|")
for d in sorted(os.listdir(os.path.join(here, "seeded"))):
    if d.split("-")[1] not in letters:
        continue
    m = json.load(open(os.path.join(here, "seeded", d, "meta.json")))
    notes = open(os.path.join(here, "seeded", d, "notes.md")).read().strip().splitlines()
    first = next((l for l in notes if l.strip()), "").lstrip("# ").strip()
    for pre in ("Change %s - " % d[-1], "Change %s — " % d[-1], "Change %s: " % d[-1], "Change `%s`: " % d[-1], "%s - " % d[-1], "%s — " % d[-1], "Change %s (" % d[-1]):
        if first.startswith(pre) and not pre.endswith("("):
            first = first[len(pre):]
    if len(first) > 150:
        first = first[:147] + "..."
    first = first.replace("|", "/")
    print("| %s | %s | %s | %s | %s |" % (d, first, ", ".join(m["detected_by"]), "; ".join(m["signatures"][:2]).replace("|", "/"), (m.get("note") or "").replace("|", "/")))
