#!/usr/bin/env python3
"""tools/coverage_report.py <ID> [tier] [file ...]: diagnostic - lines of the given rnapolis files (default: the property's anchor files)
that the check did not execute (after `VERIF_COVER=1 ./check <ID> --tier <tier>`), grouped by function. Decides nothing."""
import ast, json, os, sys
pid = sys.argv[1]; tier = sys.argv[2] if len(sys.argv) > 2 else "quick"
here = os.path.dirname(os.path.dirname(os.path.abspath(__file__)))
props = {json.loads(l)["id"]: json.loads(l) for l in open(os.path.join(here, "properties.jsonl"))}
files = sys.argv[3:] or [os.path.basename(f) for f in props[pid]["anchors"]["files"]]
cov = set(map(tuple, json.load(open(os.path.join(here, "replays", "coverage", "%s-%s.json" % (pid, tier))))))
src_root = os.environ.get("RNAPOLIS_SRC", "/repo/src")
for fn in files:
    path = os.path.join(src_root, "rnapolis", fn)
    text = open(path).read(); lines = text.split("\n")
    code = compile(text, path, "exec")
    execl = {}
    def walk(co, qual):
        for _, _, ln in co.co_lines():
            if ln is not None:
                execl.setdefault(ln, qual)
        for c in co.co_consts:
            if hasattr(c, "co_lines"):
                walk(c, (qual + "." if qual else "") + c.co_name)
    walk(code, "")
    byfn = {}
    for ln, q in sorted(execl.items()):
        d = byfn.setdefault(q, [0, []])
        d[0] += 1
        if (fn, ln) not in cov:
            d[1].append(ln)
    print("==", fn)
    for q, (n, miss) in byfn.items():
        if not q or not miss: continue
        if len(miss) == n:
            print("  %-60s NOT EXECUTED (%d lines, from %d)" % (q, n, miss[0])); continue
        print("  %-60s %d/%d missed" % (q, len(miss), n))
        for ln in miss:
            print("      %5d  %s" % (ln, lines[ln - 1].strip()[:140]))
