#!/bin/sh
# tools/seed_eval.sh <ID> [tier] [other property ids...]: verify both seeds of /tmp/wt-<ID> and run the property's check against them
id=$1; tier=${2:-quick}; [ $# -gt 0 ] && shift; [ $# -gt 0 ] && shift
for x in ${SEEDS:-a b}; do
  [ -f ${WTPREFIX:-/tmp/wt}-$id/_seed/patch_$x.diff ] || continue
  echo "== $id $x: $(head -c 300 ${WTPREFIX:-/tmp/wt}-$id/_seed/notes_$x.md 2>/dev/null | tr '\n' ' ' | cut -c1-200)"
  /verif/tools/seed_verify.sh ${WTPREFIX:-/tmp/wt}-$id $x
  /verif/tools/seedtest.sh ${WTPREFIX:-/tmp/wt}-$id/_seed/patch_$x.diff $tier $id "$@"
done
