#!/usr/bin/env python3
"""tools/wave_brief.py <prefix> <x> <y> <theme-x file> <theme-y file>: writes _seed/BRIEF.md (property text + task, nothing else from /verif)
into every scratch worktree <prefix>-<ID>."""
import json, os, sys
prefix, x, y, tx, ty = sys.argv[1:6]
tx, ty = open(tx).read().strip(), open(ty).read().strip()
here = os.path.dirname(os.path.dirname(os.path.abspath(__file__)))
for l in open(os.path.join(here, "properties.jsonl")):
    p = json.loads(l)
    wt = "%s-%s" % (prefix, p["id"])
    if not os.path.isdir(wt):
        continue
    text = f"""# Task

You are working in `{wt}`, a scratch git worktree of the Python library tzok/rnapolis-py (RNA bioinformatics: PDB/mmCIF parsing and
writing, base-pair / stacking annotation from 3D coordinates, BPSEQ / dot-bracket conversion with MILP pseudoknot-order assignment).
Work ONLY inside this directory. Never touch `/repo` or `/verif` and do not read anything under `/verif`.
Run Python as `PYTHONPATH={wt}/src /venv/bin/python ...` so that the worktree's sources are imported (the package is otherwise
installed from another directory). The sandbox has no network. Do not commit anything, and do NOT use `git stash` (the stash is shared by all
worktrees of the repository and other people work in sibling worktrees): to get back to the unchanged tree save your diff to a file and run
`git checkout -- src`, then `git apply <file>` to restore it.

Below is a semantic property that the library is expected to satisfy, as JSON (statement, the code it is anchored in, where it can be observed):

```json
{json.dumps(p, indent=1)}
```

Your job is to act as a realistic source of regressions. Produce TWO independent changes to the library sources under `src/rnapolis/`
(named `{x}` and `{y}`), each of which

1. BREAKS the property above (some input / call sequence / configuration exists for which the statement is false with your change and true
   without it),
2. still imports and keeps the existing test-suite result unchanged: run
   `cd {wt} && PYTHONPATH={wt}/src /venv/bin/python -m pytest -q -p no:cacheprovider --timeout=900 --continue-on-collection-errors 2>&1 | tail -3`
   - the unchanged tree gives exactly `7 failed, 45 passed` (the 7 failures are pre-existing and unrelated: they need the network or another solver);
   with your change applied the result must be the same 45 passed / same 7 failed (takes about a minute),
3. looks like something a maintainer could plausibly write and a reviewer could plausibly accept (a refactoring, an optimisation, a "fix",
   a generalisation) - not sabotage, no dead giveaway comments,
4. needs something SPECIFIC to manifest - a particular multi-step call sequence, an unusual but legal input, a particular option
   combination, two cooperating sites that each look fine alone - so that ordinary use and a casual smoke test would NOT expose it at once.
   Avoid the most obvious one-token mutations of the central function (flipping a comparison, changing a constant): prefer subtle ones.

Theme for change `{x}`: {tx}

Theme for change `{y}`: {ty}

The two changes must be independent of each other (each is a diff against the unchanged tree) and should touch different functions or
mechanisms of the property's anchor list where possible.

For each change `<c>` in ({x}, {y}) leave these files in `{wt}/_seed/`:

* `patch_<c>.diff` - `git diff` of the change against the unchanged tree (only files under `src/`), produced with `git diff -- src > _seed/patch_<c>.diff`;
  it must apply with `git apply` to the clean worktree;
* `demo_<c>.py` - a small self-contained program (it may read files under `{wt}/tests/`, refer to them relative to the script:
  `os.path.join(os.path.dirname(os.path.abspath(__file__)), "..", "tests", ...)`) that exits with status 0 when the property holds on its
  input and with status 1 (after printing what went wrong) when it is violated. It must exit 1 with the change applied and 0 on the unchanged tree.
  It must judge the PROPERTY as stated (not merely "the output differs from what the unchanged code gives" - an output that differs but
  still satisfies the statement is not a violation). It is run as `PYTHONPATH={wt}/src /venv/bin/python _seed/demo_<c>.py` from `{wt}`;
* `notes_<c>.md` - first line: one-sentence summary of the change; then where it is, why it breaks the property, and exactly what is
  needed for it to manifest (the smallest input / sequence you know).

Procedure: make change {x}, run the suite, run the demo (must exit 1), save the diff, `git checkout -- src`, run the demo again (must exit 0);
then the same for change {y}. Finish with the worktree clean (`git status --short` shows only `_seed/`).
When you are done, reply with a short report: for each change one line of summary, the suite result with the change, and the two demo exit codes.
"""
    open(os.path.join(wt, "_seed", "BRIEF.md"), "w").write(text)
    print("wrote", wt)
