#!/bin/sh
# tools/wave_setup.sh <prefix> [ids...]  - one scratch git worktree of /repo per property under <prefix>-<ID>, with an empty _seed/ directory
prefix=$1; shift
ids="$@"; [ -z "$ids" ] && ids="C01 C02 C03 C04 C05 C06 C07 C08 C09 C10 C11 C12 C13 C14 C15 C16 C17 C18 C19 C20"
for id in $ids; do
  d=$prefix-$id
  [ -d $d ] && continue
  git -C /repo worktree add -q --detach $d HEAD && mkdir -p $d/_seed && echo "created $d"
done
