#!/bin/sh
# tools/runall.sh [quick|thorough] [ids...]  - runs the claimed checks against /repo and prints one line per check
cd "$(dirname "$0")/.." || exit 2
tier=${1:-quick}; shift
ids="$@"
[ -z "$ids" ] && ids=$(python3 -c "import json; print(' '.join(c['property_id'] for c in json.load(open('MANIFEST.json'))['checks']))")
for id in $ids; do
  s=$(date +%s)
  out=$(./check $id --tier $tier 2>&1); rc=$?
  e=$(date +%s)
  echo "$id rc=$rc $((e-s))s $(echo "$out" | grep -c '^VIOLATION') violations $(echo "$out" | grep -c '^KNOWN-FINDING') known"
  [ $rc -ne 0 ] && echo "$out" | tail -5
done
python3-vt - <<'PY'
import json, jsonschema, glob
sch = json.load(open('/root/.vp/EVIDENCE.schema.json'))
for f in sorted(glob.glob('/verif/evidence/*.json')):
    try:
        jsonschema.validate(json.load(open(f)), sch)
    except Exception as e:
        print("INVALID", f, str(e)[:200])
jsonschema.validate(json.load(open('/verif/MANIFEST.json')), json.load(open('/root/.vp/MANIFEST.schema.json')))
print("schemas ok")
PY
