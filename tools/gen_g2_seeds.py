#!/venv/bin/python
"""Developer tool (not run by checks): selects partner placements for the three-nucleotide family G2 and writes mc/data/g2_seeds.json.
A seed is a placement of a second nucleotide for which the annotator of the tree at generation time reported a pair on a given edge of the
central base; the check itself only reads the list (the family is a fixed explicit list of structures)."""
import itertools, json, os, sys
sys.path.insert(0, os.path.dirname(os.path.dirname(os.path.abspath(__file__))))
from mc import engine, enum3d
from mc.props import ann_common as ac
from rnapolis.annotator import find_pairs

per = {}
for l1 in "ACGUT":
    for l2 in "ACGUT":
        for r, th, ph, flip in itertools.product((5.5, 6.5, 7.5), range(0, 360, 45), range(0, 360, 45), (False, True)):
            s = ac.build_structure([("A", 1, None, l1, l1, enum3d.origin(l1)), ("A", 2, None, l2, l2, enum3d.place(l2, r, th, ph, flip))])
            for bp in find_pairs(s)[0]:
                edge = bp.lw.value[1] if bp.nt1.number == 1 else bp.lw.value[2]
                per.setdefault("%s:%s" % (l1, edge), []).append(dict(l2=l2, r=r, th=th, ph=ph, flip=flip, lw=bp.lw.value))
out = {}
for k, lst in sorted(per.items()):
    step = max(1, len(lst) // 14)
    out[k] = lst[::step][:14]
json.dump(out, open(os.path.join(os.path.dirname(os.path.dirname(os.path.abspath(__file__))), "mc", "data", "g2_seeds.json"), "w"), indent=0)
print({k: len(v) for k, v in out.items()})
