#!/usr/bin/env python3
"""Regenerates /verif/MANIFEST.json from the registry below (kept valid at all times)."""
import json
import os

ROOT = os.path.dirname(os.path.dirname(os.path.abspath(__file__)))

# id -> (category, technique, text, note, design_ref)
CLAIMED = {}


def claim(pid, category, technique, text, note, ref):
    CLAIMED[pid] = (category, technique, text, note, ref)


exec(open(os.path.join(ROOT, "tools", "claims.py")).read())

NOT_YET = "check not built yet in this session (work in progress); no claim is made"


def main():
    ids = [json.loads(l)["id"] for l in open(os.path.join(ROOT, "properties.jsonl"))]
    checks = []
    na = []
    for pid in ids:
        if pid in CLAIMED:
            cat, tech, text, note, ref = CLAIMED[pid]
            checks.append(
                dict(
                    property_id=pid,
                    quick_cmd="./check %s --tier quick" % pid,
                    thorough_cmd="./check %s --tier thorough" % pid,
                    evidence_file="/verif/evidence/%s.json" % pid,
                    replay_cmd_template="./check %s --replay {path}" % pid,
                    engine="mc",
                    level_claimed=dict(category=cat, text=text, design_ref=ref),
                    level_note=note,
                    technique=tech,
                )
            )
        else:
            na.append(dict(property_id=pid, reason=NA_REASONS.get(pid, NOT_YET)))
    man = dict(
        version=1,
        setup_cmd="mkdir -p /verif/evidence /verif/replays && /venv/bin/python -c 'import rnapolis.common, pulp, scipy, pandas'",
        hooks=dict(
            guard="RNAPOLIS_VERIF",
            enable="no source hooks: checks substitute the solver, the set type and the KD-tree at module seams from outside; "
            "they import /repo/src as it is (editable install) or RNAPOLIS_SRC=<dir>",
            baseline_off_cmd="cd /repo && /venv/bin/python -m pytest -ra -q -p no:cacheprovider --timeout=900 --continue-on-collection-errors",
            source_commits=[],
            add_only=True,
        ),
        engines=[
            dict(
                name="mc",
                path="/verif/mc",
                serves_properties=sorted(CLAIMED),
                kind_free_text="hand-written bounded exhaustive explorer for Python: sharded small-scope input enumeration, explicit-state BFS over "
                "call histories with canonical state hashing, deviation-bounded environment-answer/fault exploration, transition closure; "
                "reference models in mc/ref; all on the real implementation",
            )
        ],
        checks=checks,
        not_applicable=na,
        notes="All checks: cwd /verif, exit 0 = held (KNOWN-FINDING lines possible), exit 1 + VIOLATION line = new violation, exit 2 = harness error. "
        "Known findings: /verif/known_findings.json. Seeded property-breaking changes: /verif/seeded/.",
    )
    with open(os.path.join(ROOT, "MANIFEST.json"), "w") as f:
        json.dump(man, f, indent=1)
    print("claimed:", sorted(CLAIMED), "not claimed:", [x["property_id"] for x in na])


if __name__ == "__main__":
    main()
