#!/venv/bin/python
"""Developer tool (not run by checks): finds two-nucleotide placements whose smallest decision margin (reference annotator) lies in the window
[2e-5, 2e-4] - far above the 1e-6 'undecided' rule, far below the 1e-3 A granularity of coordinate files - and writes mc/data/near_threshold.json.
Construction: walk the placement lattice, find neighbouring placements (one continuous parameter changed by one lattice step) whose annotation by
the tree at generation time differs, bisect the parameter to the flip point and step away from it until the reference margin is in the window.
The check (C05, family 'near-threshold') only reads the list: the family is a fixed explicit list of structures."""
import json, os, sys
sys.path.insert(0, os.path.dirname(os.path.dirname(os.path.abspath(__file__))))
os.environ.setdefault("LOGLEVEL", "ERROR")
from mc.props import ann_families as fam
from mc.ref import refann
from rnapolis.annotator import extract_base_interactions

STEPS = dict(r=1.0, rise=0.6, tilt=10.0, ph=30.0, th=30.0)
LO, HI = 2e-5, 2e-4


def ann(case):
    s = fam.structure_of(case)
    bi = extract_base_interactions(s, None)
    return (tuple((x.lw.value,) for x in bi.basePairs), tuple((x.topology.value,) for x in bi.stackings),
            tuple(sorted(x.bph.value for x in bi.basePhosphateInteractions)), tuple(sorted(x.br.value for x in bi.baseRiboseInteractions)))


def margin(case):
    return refann.global_margin(refann.from_structure3d(fam.structure_of(case)))


def field(a, b):
    for k, name in enumerate(("basePairs", "stackings", "basePhosphate", "baseRibose")):
        if a[k] != b[k]:
            return name


def work(args):
    """One lattice case: returns [(key, case-with-margin)] for every parameter whose one-step neighbour is annotated differently."""
    case = args
    res = []
    a0 = ann(case)
    for p, step in STEPS.items():
        if p not in case:
            continue
        c2 = dict(case)
        c2[p] = case[p] + step
        a1 = ann(c2)
        if a0 == a1:
            continue
        key = "%s:%s:%s" % (p, field(a0, a1), "".join(sorted(case["l1"] + case["l2"])))
        lo, hi = case[p], c2[p]
        for _ in range(45):
            mid = (lo + hi) / 2
            cm = dict(case)
            cm[p] = mid
            if ann(cm) == a0:
                lo = mid
            else:
                hi = mid
            if hi - lo < 1e-9:
                break
        for side, base in ((-1, lo), (1, hi)):
            cm = dict(case)
            cm[p] = base + side * 1e-4
            m1 = margin(cm)
            if m1 <= 0:
                continue
            cm[p] = base + side * 1e-4 * (6e-5 / m1)
            m = margin(cm)
            if LO <= m <= HI:
                cm["margin"] = m
                cm["crossed"] = key
                res.append((key, cm))
                break
    return res


if __name__ == "__main__":
    import multiprocessing, time

    per_key = int(sys.argv[1]) if len(sys.argv) > 1 else 4
    budget = float(sys.argv[2]) if len(sys.argv) > 2 else 600.0
    cases = [dict(c, idmode=0, namemode=0) for n, c in enumerate(fam.g1_stack("quick")) if n % 11 == 0] + \
            [dict(c, idmode=0, namemode=0) for n, c in enumerate(fam.g1_pairs("quick")) if n % 5 == 0]
    found = {}
    t0 = time.time()
    done = 0
    with multiprocessing.Pool(16) as pool:
        for res in pool.imap(work, cases, chunksize=8):
            done += 1
            for key, cm in res:
                if len(found.setdefault(key, [])) < per_key:
                    found[key].append(cm)
            if time.time() - t0 > budget:
                pool.terminate()
                break
    out = [c for k in sorted(found) for c in found[k]]
    path = os.path.join(os.path.dirname(os.path.dirname(os.path.abspath(__file__))), "mc", "data", "near_threshold.json")
    json.dump(out, open(path, "w"), indent=0)
    print("scanned %d of %d lattice cases in %.0fs; kept %d structures over %d keys" % (done, len(cases), time.time() - t0, len(out), len(found)))
    print({k: len(v) for k, v in sorted(found.items())})
