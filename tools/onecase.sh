#!/bin/sh
# tools/onecase.sh <patch.diff|-> <ID> '<case json>'  - runs ONE case of a property against a scratch copy of /repo/src carrying the patch (diagnostic)
patch=$1; id=$2; case=$3
d=$(mktemp -d /tmp/seedrun-XXXXXX)
cp -r /repo/src $d/src
[ "$patch" != "-" ] && ( cd $d && patch -s -p1 < "$patch" || echo "PATCH FAILED" )
cd "$(dirname "$0")/.."
RNAPOLIS_SRC=$d/src PYTHONDONTWRITEBYTECODE=1 /venv/bin/python - "$id" "$case" <<'PY' 2>&1 | grep -v WARNING
import json, sys
from mc import engine
mod = engine.load_module(sys.argv[1])
if hasattr(mod, "worker_init"): mod.worker_init("quick")
r = engine.safe_run_case(mod, json.loads(sys.argv[2]))
print(r.get("outcome"), [ (v["signature"], (v.get("message") or "")[:160]) for v in r.get("violations") or []][:4])
PY
rm -rf $d
