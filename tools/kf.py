#!/usr/bin/env python3
"""kf.py fixed|known <property> <signature> <commit-or-'-'> <what>  - append an entry to known_findings.json (developer tool, never run by checks)."""
import json, os, sys
ROOT = os.path.dirname(os.path.dirname(os.path.abspath(__file__)))
p = os.path.join(ROOT, "known_findings.json")
d = json.load(open(p))
status, prop, sig, commit, what = sys.argv[1:6]
e = dict(property=prop, signature=sig, status=status, what=what)
if status == "fixed":
    e["commit"] = commit
    e["record"] = "fixed: property=%s %s %s" % (prop, commit, what)
else:
    e["record"] = "known: property=%s %s" % (prop, what)
d["findings"].append(e)
json.dump(d, open(p, "w"), indent=1)
print(e["record"])
