#!/bin/sh
# tools/seed_verify.sh <worktree> <a|b>  - confirms: suite passes with the patch, demo fails with it, demo passes without it
wt=$1; x=$2
cd $wt || exit 2
git checkout -q -- src
git apply _seed/patch_$x.diff || { echo "APPLY FAILED"; exit 3; }
PYTHONPATH=$wt/src /venv/bin/python -m pytest -q -p no:cacheprovider --timeout=900 --continue-on-collection-errors 2>&1 | tail -1
PYTHONPATH=$wt/src /venv/bin/python _seed/demo_$x.py >/dev/null 2>&1; echo "demo with change: rc=$?"
git checkout -q -- src
PYTHONPATH=$wt/src /venv/bin/python _seed/demo_$x.py >/dev/null 2>&1; echo "demo without change: rc=$?"
