"""Finite families of secondary structures, enumerated completely and simplest-first."""
import itertools

LETTERS = "ACGU"


def matchings(n):
    """All partial matchings (involutions) on 1..n as sorted tuples of pairs (i<j)."""

    def rec(free):
        if not free:
            yield ()
            return
        a, rest = free[0], free[1:]
        for m in rec(rest):
            yield m
        for k, b in enumerate(rest):
            for m in rec(rest[:k] + rest[k + 1 :]):
                yield ((a, b),) + m

    for m in rec(tuple(range(1, n + 1))):
        yield tuple(sorted(m))


def M(nmax, nmin=1):
    for n in range(nmin, nmax + 1):
        for m in matchings(n):
            yield dict(n=n, pairs=[list(p) for p in m])


def perfect_matchings(points):
    if not points:
        yield ()
        return
    a, rest = points[0], points[1:]
    for k, b in enumerate(rest):
        for m in perfect_matchings(rest[:k] + rest[k + 1 :]):
            yield ((a, b),) + m


def chord_structure(arcs, lengths, gaps):
    """arcs: perfect matching on endpoints 0..2K-1; lengths[k] stem length of arc k;
    gaps[e] unpaired nucleotides before endpoint e (gaps[2K] = trailing)."""
    K = len(arcs)
    owner = {}
    for k, (a, b) in enumerate(arcs):
        owner[a] = (k, 0)
        owner[b] = (k, 1)
    pos = 1
    start = {}
    for e in range(2 * K):
        pos += gaps[e]
        k, side = owner[e]
        start[e] = pos
        pos += lengths[k]
    pos += gaps[2 * K]
    n = pos - 1
    pairs = []
    for k, (a, b) in enumerate(arcs):
        L = lengths[k]
        for t in range(L):
            pairs.append([start[a] + t, start[b] + L - 1 - t])
    pairs.sort()
    return dict(n=n, pairs=pairs)


def D(kmax, lens=(1, 2), gapvals=(0, 1), kmin=1, length_filter=None):
    """All chord diagrams of K arcs x length vectors x uniform gap value (every gap = g)."""
    for K in range(kmin, kmax + 1):
        for arcs in perfect_matchings(tuple(range(2 * K))):
            for lv in itertools.product(lens, repeat=K):
                if length_filter and not length_filter(lv):
                    continue
                for g in gapvals:
                    gaps = [g] * (2 * K + 1)
                    s = chord_structure(arcs, lv, gaps)
                    s["diagram"] = [list(a) for a in arcs]
                    s["lengths"] = list(lv)
                    s["gap"] = g
                    yield s


def ladder(K, lengths=None, gap=0):
    """K mutually crossing stems: openers 0..K-1 then closers in the same order."""
    arcs = tuple((i, K + i) for i in range(K))
    lengths = lengths or [1] * K
    return chord_structure(arcs, lengths, [gap] * (2 * K + 1))


EXOTIC = "XPI?nNtm"  # letters a BPSEQ may carry besides ACGU: unknown, modified, lower-case, placeholder


def exotic(case):
    """The same structure with a sequence over letters that are not ACGU (sequence letters never influence 2D code paths)."""
    return dict(case, seq="".join(EXOTIC[i % len(EXOTIC)] for i in range(case["n"])))


def letters_for(n, shift=0):
    return "".join(LETTERS[(i + shift) % 4] for i in range(n))


def bpseq_text(case, shift=0):
    n = case["n"]
    partner = [0] * (n + 1)
    for i, j in case["pairs"]:
        partner[i] = j
        partner[j] = i
    seq = case.get("seq") or letters_for(n, shift)
    return "\n".join("%d %s %d" % (i, seq[i - 1], partner[i]) for i in range(1, n + 1))


OPEN = "([{<" + "ABCDEFGHIJKLMNOPQRSTUVWXYZ"
CLOSE = ")]}>" + "abcdefghijklmnopqrstuvwxyz"


def balanced_strings(length, types):
    """All strings of exactly `length` over '.' and the given bracket type indices that are balanced per type
    (types may cross each other)."""
    ntypes = len(types)

    def rec(pos, depth, acc):
        remaining = length - pos
        need = sum(depth)
        if need > remaining:
            return
        if pos == length:
            yield "".join(acc)
            return
        acc.append(".")
        yield from rec(pos + 1, depth, acc)
        acc.pop()
        for t in range(ntypes):
            acc.append(OPEN[types[t]])
            depth[t] += 1
            yield from rec(pos + 1, depth, acc)
            depth[t] -= 1
            acc.pop()
            if depth[t] > 0:
                acc.append(CLOSE[types[t]])
                depth[t] -= 1
                yield from rec(pos + 1, depth, acc)
                depth[t] += 1
                acc.pop()

    yield from rec(0, [0] * ntypes, [])
