"""Reference annotator (C03, C04, C11, C05 margins): O(n^2) re-statement of the property texts.
Own copies of the donor/acceptor/edge/base-atom tables and of the thresholds named in the properties. numpy only."""
import itertools
import math

import numpy as np

from mc.ref import reftorsion

BASE_ATOMS = {
    "A": ["N1", "C2", "N3", "C4", "C5", "C6", "N6", "N7", "C8", "N9"],
    "G": ["N1", "C2", "N2", "N3", "C4", "C5", "C6", "O6", "N7", "C8", "N9"],
    "C": ["N1", "C2", "O2", "N3", "C4", "N4", "C5", "C6"],
    "U": ["N1", "C2", "O2", "N3", "C4", "O4", "C5", "C6"],
    "T": ["N1", "C2", "O2", "N3", "C4", "O4", "C5", "C6", "C7"],
}
DONORS = {"A": ["C2", "N6", "C8"], "G": ["N1", "N2", "C8"], "C": ["N4", "C5", "C6"], "U": ["N3", "C5", "C6"], "T": ["N3", "C6", "C7"]}
ACCEPTORS = {"A": ["N1", "N3", "N7"], "G": ["N3", "O6", "N7"], "C": ["O2", "N3"], "U": ["O2", "O4"], "T": ["O2", "O4"]}
HAS_O2P = "ACGU"
EDGES = {
    "A": {"N1": "W", "C2": "WS", "N3": "S", "N6": "WH", "N7": "H", "C8": "H", "O2'": "S"},
    "G": {"N1": "W", "N2": "WS", "N3": "S", "O6": "WH", "N7": "H", "C8": "H", "O2'": "S"},
    "C": {"O2": "WS", "N3": "W", "N4": "WH", "C5": "H", "C6": "H", "O2'": "S"},
    "U": {"O2": "WS", "N3": "W", "O4": "WH", "C5": "H", "C6": "H", "O2'": "S"},
    "T": {"O2": "WS", "N3": "W", "O4": "WH", "C6": "H", "C7": "H"},
}
PHOSPHATE_O = ["OP1", "OP2", "O5'", "O3'"]
RIBOSE_O = ["O4'", "O2'"]
HB_MAX = 4.0
HB_ANGLE = (50.0, 130.0)
ST_DIST = 6.0
ST_NORMALS = 35.0
ST_OFFSET = 45.0
EPS = 1e-6

SAENGER = {
    ("AA", "tWW"): "I", ("AA", "tHH"): "II", ("GG", "tWW"): "III", ("GG", "tSS"): "IV", ("AA", "tWH"): "V", ("AA", "tHW"): "V", ("GG", "cWH"): "VI",
    ("GG", "cHW"): "VI", ("GG", "tWH"): "VII", ("GG", "tHW"): "VII", ("AG", "cWW"): "VIII", ("GA", "cWW"): "VIII", ("AG", "cHW"): "IX", ("GA", "cWH"): "IX",
    ("AG", "tWS"): "X", ("GA", "tSW"): "X", ("AG", "tHS"): "XI", ("GA", "tSH"): "XI", ("UU", "tWW"): "XII", ("TT", "tWW"): "XII", ("UU", "cWW"): "XVI",
    ("TT", "cWW"): "XVI", ("CU", "tWW"): "XVII", ("UC", "tWW"): "XVII", ("CU", "cWW"): "XVIII", ("UC", "cWW"): "XVIII", ("CG", "cWW"): "XIX",
    ("GC", "cWW"): "XIX", ("AU", "cWW"): "XX", ("UA", "cWW"): "XX", ("AT", "cWW"): "XX", ("TA", "cWW"): "XX", ("AU", "tWW"): "XXI", ("UA", "tWW"): "XXI",
    ("AT", "tWW"): "XXI", ("TA", "tWW"): "XXI", ("CG", "tWW"): "XXII", ("GC", "tWW"): "XXII", ("AU", "cHW"): "XXIII", ("UA", "cWH"): "XXIII",
    ("AT", "cHW"): "XXIII", ("TA", "cWH"): "XXIII", ("AU", "tHW"): "XXIV", ("UA", "tWH"): "XXIV", ("AT", "tHW"): "XXIV", ("TA", "tWH"): "XXIV",
    ("AC", "tHW"): "XXV", ("CA", "tWH"): "XXV", ("AC", "tWW"): "XXVI", ("CA", "tWW"): "XXVI", ("GU", "tWW"): "XXVII", ("UG", "tWW"): "XXVII",
    ("GT", "tWW"): "XXVII", ("TG", "tWW"): "XXVII", ("GU", "cWW"): "XXVIII", ("UG", "cWW"): "XXVIII", ("GT", "cWW"): "XXVIII", ("TG", "cWW"): "XXVIII",
}


class Res:
    __slots__ = ("key", "letter", "atoms", "order", "_normal", "_centroid")

    def __init__(self, key, letter, atoms, order):
        self.key = key  # (chain, number, icode)
        self.letter = letter
        self.atoms = atoms  # name -> np.array (first occurrence)
        self.order = order
        self._normal = False
        self._centroid = False

    def sortkey(self):
        return (self.key[0], self.key[1], self.key[2] or " ")

    @property
    def normal(self):
        if self._normal is False:
            a = self.atoms
            if self.letter in ("A", "G"):
                need = ("N9", "N7", "N3")
            else:
                need = ("N1", "C4", "O2")
            if all(n in a for n in need):
                v1 = a[need[1]] - a[need[0]]
                v2 = a[need[2]] - a[need[0]]
                n = np.cross(v1, v2)
                ln = np.linalg.norm(n)
                self._normal = n / ln if ln > 0 else None
            else:
                self._normal = None
        return self._normal

    @property
    def centroid(self):
        if self._centroid is False:
            pts = [self.atoms[n] for n in BASE_ATOMS.get(self.letter, []) if n in self.atoms]
            self._centroid = np.mean(pts, axis=0) if pts else None
        return self._centroid


def from_structure3d(structure, model=None):
    out = []
    for k, r in enumerate(structure.residues):
        if model is not None and r.model != model:
            continue
        atoms = {}
        for a in r.atoms:
            if a.name not in atoms:
                atoms[a.name] = np.array([a.x, a.y, a.z])
        # author identity, plus the label identity where the residue has one (assembly copies share the author identity and differ in the label chain)
        key = (r.chain, r.number, r.icode) + ((r.label.chain, r.label.number) if getattr(r, "label", None) is not None else ())
        out.append(Res(key, r.one_letter_name, atoms, k))
    return out


def angle_deg(u, v):
    c = float(np.dot(u, v) / (np.linalg.norm(u) * np.linalg.norm(v)))
    return math.degrees(math.acos(max(-1.0, min(1.0, c))))


class Margin:
    """Smallest distance of any decision quantity from its threshold."""

    def __init__(self):
        self.value = float("inf")

    def le(self, x, thr):
        self.value = min(self.value, abs(x - thr))
        return x <= thr

    def lt(self, x, thr):
        self.value = min(self.value, abs(x - thr))
        return x < thr

    def gt(self, x, thr):
        self.value = min(self.value, abs(x - thr))
        return x > thr


def strict_class(all_res, donor_res, acceptor_res, oxygens):
    """The one class a residue pair must carry when nothing competes for the atoms involved, else None.

    Contacts = base donor atoms of donor_res within 4.0 A of the given oxygens of acceptor_res. The annotator lets every atom take part in one contact only,
    so which contacts are realised is unambiguous exactly when every donor atom involved touches no other phosphate / ribose oxygen of any other residue and
    every oxygen involved is touched by no other base donor atom; then each contact contributes its own class and the merge rules (3 and 5 -> 4, 7 and 9 -> 8)
    give one class. Anything within 1e-6 of the 4.0 A cut-off or of the +-90 degree class boundary makes the pair undecided (None)."""
    contacts = []
    for dn in DONORS.get(donor_res.letter, []):
        if dn not in donor_res.atoms:
            continue
        for on in oxygens:
            if on not in acceptor_res.atoms:
                continue
            d = float(np.linalg.norm(donor_res.atoms[dn] - acceptor_res.atoms[on]))
            if abs(d - HB_MAX) <= 1e-6:
                return None
            if d < HB_MAX:
                contacts.append((dn, on))
    if not contacts:
        return None
    alloxy = tuple(PHOSPHATE_O) + tuple(RIBOSE_O)
    for dn in {c[0] for c in contacts}:
        n = 0
        for r in all_res:
            if r is donor_res:
                continue
            for on in alloxy:
                if on in r.atoms and float(np.linalg.norm(donor_res.atoms[dn] - r.atoms[on])) <= HB_MAX + 1e-6:
                    n += 1
        if n != 1:
            return None
    for on in {c[1] for c in contacts}:
        n = 0
        for r in all_res:
            if r is acceptor_res:
                continue
            for dn in DONORS.get(r.letter, []):
                if dn in r.atoms and float(np.linalg.norm(r.atoms[dn] - acceptor_res.atoms[on])) <= HB_MAX + 1e-6:
                    n += 1
        if n != 1:
            return None
    S = set()
    for dn, on in contacts:
        c = bph_class(donor_res, dn, acceptor_res.atoms[on])
        if not c or len(c) != 1:
            return None
        S |= c
    if len(S) == 1:
        return next(iter(S))
    if S == {3, 5}:
        return 4
    if S == {7, 9}:
        return 8
    return None


# ---------------------------------------------------------------------------------------------
# stacking (C04)

def stacking_reference(residues):
    """Returns dict pair-key -> dict(directed, undirected, same_direction, margin) for residue pairs with centroids within reach."""
    out = {}
    cand = [r for r in residues if r.centroid is not None]
    for a, b in itertools.combinations(cand, 2):
        d = float(np.linalg.norm(a.centroid - b.centroid))
        if d > ST_DIST + 1.0:
            continue
        m = Margin()
        close = m.le(d, ST_DIST)
        if a.normal is None or b.normal is None:
            out[(a.order, b.order)] = dict(directed=False, undirected=False, same=None, margin=float("inf"), defined=False)
            continue
        ang = angle_deg(a.normal, b.normal)
        par = m.le(min(ang, 180.0 - ang), ST_NORMALS)
        v = a.centroid - b.centroid  # from the later-listed to the earlier-listed residue
        if np.linalg.norm(v) == 0:
            continue
        offd = min(angle_deg(v, a.normal), angle_deg(v, b.normal))
        offu = min(offd, angle_deg(-v, a.normal), angle_deg(-v, b.normal))
        m2 = Margin()
        okd = m.le(offd, ST_OFFSET)
        oku = m2.le(offu, ST_OFFSET)
        dot = float(np.dot(a.normal, b.normal))
        out[(a.order, b.order)] = dict(directed=close and par and okd, undirected=close and par and oku, same=dot > 0.0,
                                       margin=min(m.value, m2.value), dot_margin=abs(dot), defined=True)
    return out


# ---------------------------------------------------------------------------------------------
# base pairs (C03)

def cis_trans(r1, r2, margin=None):
    n1 = "N9" if r1.letter in "AG" else "N1"
    n2 = "N9" if r2.letter in "AG" else "N1"
    need = [r1.atoms.get("C1'"), r1.atoms.get(n1), r2.atoms.get(n2), r2.atoms.get("C1'")]
    if any(x is None for x in need):
        return None
    t = math.degrees(reftorsion.torsion(*need))
    if margin is not None:
        margin.value = min(margin.value, abs(abs(t) - 90.0))
    return "c" if -90.0 < t < 90.0 else "t"


def contacts(r1, r2, liberal, margin=None):
    """Atom pairs (a in r1, b in r2) forming donor-acceptor contacts with both normal angles inside the range.
    liberal: O2' admitted in either role and thresholds widened by EPS (soundness); strict: base-to-base only, exact thresholds."""
    res = []
    if r1.normal is None or r2.normal is None:
        return res
    d1 = list(DONORS.get(r1.letter, []))
    a1 = list(ACCEPTORS.get(r1.letter, []))
    d2 = list(DONORS.get(r2.letter, []))
    a2 = list(ACCEPTORS.get(r2.letter, []))
    if liberal:
        if r1.letter in HAS_O2P:
            d1.append("O2'")
            a1.append("O2'")
        if r2.letter in HAS_O2P:
            d2.append("O2'")
            a2.append("O2'")
    seen = set()
    for donors, acceptors, flip in ((d1, a2, False), (a1, d2, True)):
        for x in donors:
            for y in acceptors:
                na, nb = (x, y)
                if (na, nb) in seen:
                    continue
                pa, pb = r1.atoms.get(na), r2.atoms.get(nb)
                if pa is None or pb is None:
                    continue
                dist = float(np.linalg.norm(pa - pb))
                if dist > HB_MAX + 0.5:
                    continue
                v = pa - pb
                if dist == 0.0:
                    continue
                ang1 = angle_deg(r1.normal, v)
                ang2 = angle_deg(r2.normal, v)
                if liberal:
                    ok = dist <= HB_MAX + EPS and HB_ANGLE[0] - EPS < ang1 < HB_ANGLE[1] + EPS and HB_ANGLE[0] - EPS < ang2 < HB_ANGLE[1] + EPS
                else:
                    m = margin if margin is not None else Margin()
                    ok = m.le(dist, HB_MAX)
                    ok = m.gt(ang1, HB_ANGLE[0]) and ok
                    ok = m.lt(ang1, HB_ANGLE[1]) and ok
                    ok = m.gt(ang2, HB_ANGLE[0]) and ok
                    ok = m.lt(ang2, HB_ANGLE[1]) and ok
                if ok:
                    seen.add((na, nb))
                    res.append((na, nb))
    return res


def edge_support(r1, r2, cons):
    """Counter (E1, E2) -> number of distinct contacts on that edge combination."""
    cnt = {}
    for na, nb in cons:
        e1 = EDGES.get(r1.letter, {}).get(na)
        e2 = EDGES.get(r2.letter, {}).get(nb)
        if not e1 or not e2:
            continue
        for x in e1:
            for y in e2:
                cnt[(x, y)] = cnt.get((x, y), 0) + 1
    return cnt


def near_pairs(residues, cutoff=HB_MAX + 0.5):
    """Residue pairs having any atom pair within cutoff (cheap prefilter with numpy)."""
    idx = []
    pts = []
    for k, r in enumerate(residues):
        for n, p in r.atoms.items():
            if n in EDGES.get(r.letter, {}) or n in PHOSPHATE_O or n in RIBOSE_O:
                idx.append(k)
                pts.append(p)
    if not pts:
        return set()
    pts = np.array(pts)
    idx = np.array(idx)
    out = set()
    for i0 in range(0, len(pts), 1024):
        blk = pts[i0 : i0 + 1024]
        d = np.sqrt(((blk[:, None, :] - pts[None, :, :]) ** 2).sum(-1))
        ii, jj = np.nonzero(d <= cutoff)
        for a, b in zip(idx[i0 + ii], idx[jj]):
            if a < b:
                out.add((int(a), int(b)))
    return out


def base_pair_candidates(residues):
    """Completeness side: list of dict(r1, r2 (sorted by identity), ct, e1, e2, margin) with >= 2 strict base-to-base contacts."""
    out = []
    for i, j in sorted(near_pairs(residues)):
        a, b = residues[i], residues[j]
        if a.key == b.key:
            continue
        if b.sortkey() < a.sortkey():
            a, b = b, a
        m = Margin()
        cons = contacts(a, b, liberal=False, margin=m)
        sup = edge_support(a, b, cons)
        if not sup:
            continue
        ct = cis_trans(a, b, m)
        if ct is None:
            continue
        for (e1, e2), n in sup.items():
            if n >= 2:
                out.append(dict(r1=a, r2=b, ct=ct, e1=e1, e2=e2, n=n, margin=m.value, undecided=m.value < EPS))
    return out


# ---------------------------------------------------------------------------------------------
# base-phosphate / base-ribose (C11)

def bph_class(donor_res, donor_name, acceptor_xyz):
    L = donor_res.letter
    a = donor_res.atoms

    def tors(n1, n2):
        if n1 in a and n2 in a:
            t = math.degrees(reftorsion.torsion(a[n1], a[n2], a[donor_name], acceptor_xyz))
            return t
        return None

    if L == "A":
        if donor_name == "C2":
            return {2}
        if donor_name == "N6":
            t = tors("N1", "C6")
            return None if t is None else ({6, 7} if abs(abs(t) - 90) < 1e-6 else ({6} if abs(t) < 90 else {7}))
        if donor_name == "C8":
            return {0}
    if L == "G":
        if donor_name == "N1":
            return {5}
        if donor_name == "N2":
            t = tors("N3", "C2")
            return None if t is None else ({1, 3} if abs(abs(t) - 90) < 1e-6 else ({1} if abs(t) < 90 else {3}))
        if donor_name == "C8":
            return {0}
    if L == "C":
        if donor_name == "N4":
            t = tors("N3", "C4")
            return None if t is None else ({6, 7} if abs(abs(t) - 90) < 1e-6 else ({6} if abs(t) < 90 else {7}))
        if donor_name == "C5":
            return {9}
        if donor_name == "C6":
            return {0}
    if L == "U":
        return {"N3": {5}, "C5": {9}, "C6": {0}}.get(donor_name)
    if L == "T":
        return {"N3": {5}, "C6": {0}, "C7": {9}}.get(donor_name)
    return None


def implied_classes(donor_res, acceptor_res, oxygens):
    """Set of classes implied by the base-donor ... oxygen contacts within 4.0 A (liberal by EPS); plus merge results."""
    S = set()
    ncontacts = 0
    for dn in DONORS.get(donor_res.letter, []):
        if dn not in donor_res.atoms:
            continue
        for on in oxygens:
            if on not in acceptor_res.atoms:
                continue
            d = float(np.linalg.norm(donor_res.atoms[dn] - acceptor_res.atoms[on]))
            if d <= HB_MAX + EPS:
                ncontacts += 1
                c = bph_class(donor_res, dn, acceptor_res.atoms[on])
                if c:
                    S |= c
    allowed = set(S)
    if {3, 5} <= S:
        allowed.add(4)
    if {7, 9} <= S:
        allowed.add(8)
    return allowed, ncontacts


# ---------------------------------------------------------------------------------------------
# global decision margin of a structure (C05): smallest distance of any decision quantity from its threshold

def global_margin(residues):
    m = Margin()
    # hydrogen-bond candidates, cis/trans, base-phosphate / base-ribose classes
    for i, j in near_pairs(residues):
        a, b = residues[i], residues[j]
        if a.key == b.key:
            continue
        touched = False
        for r1, r2 in ((a, b), (b, a)):
            dn = DONORS.get(r1.letter, []) + (["O2'"] if r1.letter in HAS_O2P else [])
            ac = ACCEPTORS.get(r2.letter, []) + PHOSPHATE_O + RIBOSE_O
            for x in dn:
                if x not in r1.atoms:
                    continue
                for y in ac:
                    if y not in r2.atoms:
                        continue
                    d = float(np.linalg.norm(r1.atoms[x] - r2.atoms[y]))
                    if d > HB_MAX + 0.5:
                        continue
                    m.le(d, HB_MAX)
                    touched = True
                    if y in PHOSPHATE_O or y in RIBOSE_O:
                        if x in ("N6", "N2", "N4"):
                            pre = {"A": ("N1", "C6"), "G": ("N3", "C2"), "C": ("N3", "C4")}.get(r1.letter)
                            if pre and pre[0] in r1.atoms and pre[1] in r1.atoms:
                                t = math.degrees(reftorsion.torsion(r1.atoms[pre[0]], r1.atoms[pre[1]], r1.atoms[x], r2.atoms[y]))
                                m.lt(abs(t), 90.0)
                    if r1.normal is not None and r2.normal is not None and d > 0:
                        v = r1.atoms[x] - r2.atoms[y]
                        for n in (r1.normal, r2.normal):
                            ang = angle_deg(n, v)
                            m.gt(ang, HB_ANGLE[0])
                            m.lt(ang, HB_ANGLE[1])
        if touched:
            cis_trans(a, b, m)
    for e in stacking_reference(residues).values():
        if e.get("defined"):
            m.value = min(m.value, e["margin"], e.get("dot_margin", float("inf")))
    return m.value
