"""Reference torsion (IUPAC convention) and NeRF construction of four points with a prescribed dihedral. numpy only."""
import math

import numpy as np


def torsion(p1, p2, p3, p4):
    """IUPAC dihedral in radians: positive when, looking from p2 to p3, the front bond p2-p1 must be rotated clockwise to
    eclipse the rear bond p3-p4. Standard formula atan2(|b2| b1.(b2 x b3), (b1 x b2).(b2 x b3))."""
    b1 = np.asarray(p2, float) - np.asarray(p1, float)
    b2 = np.asarray(p3, float) - np.asarray(p2, float)
    b3 = np.asarray(p4, float) - np.asarray(p3, float)
    n1 = np.cross(b1, b2)
    n2 = np.cross(b2, b3)
    y = np.linalg.norm(b2) * np.dot(b1, n2)
    x = np.dot(n1, n2)
    return math.atan2(y, x)


def build(phi, l1, l2, l3, a1, a2):
    """Four points with bond lengths l1,l2,l3, bond angles a1 (at p2), a2 (at p3) in radians and IUPAC dihedral phi."""
    p2 = np.zeros(3)
    p3 = np.array([l2, 0.0, 0.0])
    # p1 in the xy-plane, bond angle a1 at p2
    p1 = p2 + l1 * np.array([math.cos(a1), math.sin(a1), 0.0])
    # p4: bond angle a2 at p3, rotated about the x axis (p2->p3) by phi from the cis position
    # cis position (phi = 0) lies on the same side as p1: direction (-cos a2, sin a2, 0) from p3
    d = np.array([-math.cos(a2), math.sin(a2) * math.cos(phi), math.sin(a2) * math.sin(phi)])
    p4 = p3 + l3 * d
    return p1, p2, p3, p4


def angdiff(a, b):
    d = (a - b + math.pi) % (2 * math.pi) - math.pi
    return abs(d)
