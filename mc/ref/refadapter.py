"""Reference grammar for external-tool labels (C19), written from the property text. No rnapolis imports."""
import re

LW18 = [c + a + b for c in "ct" for a in "WHS" for b in "WHS"]
STACK = {"s33": "downward", "s55": "upward", "s35": "outward", "s53": "inward"}

_certain_lw = re.compile(r"^n?([cCtT])([WHSwhs])([WHSwhs])a?$")
_certain_stack = re.compile(r"^n?(s33|s35|s53|s55)$")
_certain_bph = re.compile(r"^n?([0-9])BPh$")
_certain_br = re.compile(r"^n?([0-9])BR$")

_core_liberal = re.compile(r"^(?:[ct][whs][whs]|s[35][35]|[0-9]bph|[0-9]br)$")


def certain(label):
    """(category, class-name) if the label is in the certain language, else None."""
    m = _certain_lw.match(label)
    if m:
        return ("base-pair", m.group(1).lower() + m.group(2).upper() + m.group(3).upper())
    m = _certain_stack.match(label)
    if m:
        return ("stacking", STACK[m.group(1)])
    m = _certain_bph.match(label)
    if m:
        return ("base-phosphate", m.group(1) + "BPh")
    m = _certain_br.match(label)
    if m:
        return ("base-ribose", m.group(1) + "BR")
    return None


_core_lw_anycase = re.compile(r"^[ct][whs][whs]$")
_core_exact = re.compile(r"^(?:s[35][35]|[0-9]BPh|[0-9]BR)$")


def derivable(label):
    """True if under SOME reading the label denotes a class: optional n prefix (either case), optional a suffix (either case); the Leontis-Westhof core in
    any letter case (the property says so), the stacking and base-phosphate / base-ribose cores as they are spelled (s35, 0BPh, 0BR): '0BPH' or '3bph' are
    not labels of the FR3D vocabulary and, being unrecognised, have to be kept as 'other'."""
    cands = {label}
    if label[:1] in ("n", "N"):
        cands.add(label[1:])
    for c in list(cands):
        if c[-1:] in ("a", "A"):
            cands.add(c[:-1])
    return any(_core_lw_anycase.match(c.lower()) or _core_exact.match(c) for c in cands)


def expected(label):
    """('exact', category, cls) | ('other',) | ('any',)"""
    c = certain(label)
    if c:
        return ("exact",) + c
    if not derivable(label):
        return ("other",)
    return ("any",)


_int = re.compile(r"^-?[0-9]+$")


def parse_unit(u):
    """Returns (chain, number, icode, name) or None when not well-formed, or 'unclear' when the property does not decide."""
    f = u.split("|")
    if len(f) < 5:
        return None
    if not _int.match(f[4]):
        try:
            int(f[4])
            return "unclear"
        except ValueError:
            return None
    icode = f[7] if len(f) >= 8 and f[7] != "" else None
    return (f[2], int(f[4]), icode, f[3])
