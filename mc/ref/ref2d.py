"""Reference model for secondary-structure properties (C01, C02, C07, C12, C13, C16).
Written from the property statements; imports nothing from rnapolis."""
import itertools

OPEN = "([{<" + "ABCDEFGHIJKLMNOPQRSTUVWXYZ"
CLOSE = ")]}>" + "abcdefghijklmnopqrstuvwxyz"
LEVEL = {}
for _k, (_o, _c) in enumerate(zip(OPEN, CLOSE)):
    LEVEL[_o] = (_k, +1)
    LEVEL[_c] = (_k, -1)


def decode(structure):
    """Per-type stack decoder. Returns (pairs: dict (i,j)->level with 1-based i<j, problems: list of str)."""
    stacks = {}
    pairs = {}
    problems = []
    for pos, ch in enumerate(structure, start=1):
        if ch == ".":
            continue
        if ch not in LEVEL:
            problems.append("foreign character %r at %d" % (ch, pos))
            continue
        lev, d = LEVEL[ch]
        if d > 0:
            stacks.setdefault(lev, []).append(pos)
        else:
            st = stacks.get(lev)
            if not st:
                problems.append("closer %r at %d without opener" % (ch, pos))
                continue
            pairs[(st.pop(), pos)] = lev
    for lev, st in stacks.items():
        if st:
            problems.append("unclosed %r at %s" % (OPEN[lev], st))
    return pairs, problems


def crossing(p, q):
    (k, l), (m, n) = p, q
    return k < m < l < n or m < k < n < l


def check_encoding(n, seq, pairs, dbn_seq, dbn_struct):
    """All C01 demands on one produced string. Returns list of problem strings."""
    problems = []
    if dbn_seq != seq:
        problems.append("sequence differs")
    if len(dbn_struct) != n:
        problems.append("length %d != %d" % (len(dbn_struct), n))
        return problems
    dec, pr = decode(dbn_struct)
    problems.extend(pr)
    want = set(tuple(p) for p in pairs)
    got = set(dec)
    if got != want:
        lost = sorted(want - got)
        inv = sorted(got - want)
        problems.append("decoded pairs differ: lost=%s invented=%s" % (lost[:4], inv[:4]))
    items = sorted(dec.items())
    for a in range(len(items)):
        for b in range(a + 1, len(items)):
            if items[a][1] == items[b][1] and crossing(items[a][0], items[b][0]):
                problems.append("crossing pairs %s %s share level %d" % (items[a][0], items[b][0], items[a][1]))
                return problems
    return problems


def stems_of(pairs):
    """Maximal runs of directly stacked pairs. Returns list of (i, j, length), 5' ordered."""
    ps = set(tuple(p) for p in pairs)
    out = []
    for i, j in sorted(ps):
        if (i - 1, j + 1) in ps:
            continue
        L = 1
        while (i + L, j - L) in ps and i + L < j - L:
            L += 1
        out.append((i, j, L))
    return out


def stem_graph(stems):
    g = {a: set() for a in range(len(stems))}
    for a, b in itertools.combinations(range(len(stems)), 2):
        if crossing(stems[a][:2], stems[b][:2]):
            g[a].add(b)
            g[b].add(a)
    return g


def objective(stems, levels):
    return sum(L if lev == 0 else -lev * L for (_, _, L), lev in zip(stems, levels))


def stem_levels(stems, decoded):
    """Level of each stem in a decoded structure; None if its pairs are on different levels."""
    out = []
    for i, j, L in stems:
        levs = {decoded.get((i + t, j - t)) for t in range(L)}
        out.append(levs.pop() if len(levs) == 1 else None)
    return out


def optimum(stems, graph):
    """Exact maximum of the objective over all proper level assignments (branch and bound, component-wise)."""
    total = 0
    seen = set()
    for v0 in range(len(stems)):
        if v0 in seen:
            continue
        comp = []
        stack = [v0]
        seen.add(v0)
        while stack:
            v = stack.pop()
            comp.append(v)
            for w in graph[v]:
                if w not in seen:
                    seen.add(w)
                    stack.append(w)
        comp.sort(key=lambda v: -stems[v][2])
        if len(comp) == 1:
            total += stems[comp[0]][2]
            continue
        best = [None]
        assign = {}
        nlev = len(comp)
        # upper bound of the remainder: every remaining stem on level 0
        suffix = [0] * (len(comp) + 1)
        for k in range(len(comp) - 1, -1, -1):
            suffix[k] = suffix[k + 1] + stems[comp[k]][2]

        def rec(k, val):
            if best[0] is not None and val + suffix[k] <= best[0]:
                return
            if k == len(comp):
                best[0] = val
                return
            v = comp[k]
            used = {assign[w] for w in graph[v] if w in assign}
            for lev in range(nlev):
                if lev in used:
                    continue
                assign[v] = lev
                rec(k + 1, val + (stems[v][2] if lev == 0 else -lev * stems[v][2]))
                del assign[v]

        rec(0, 0)
        total += best[0]
    return total


def components(graph, only_conflicted=True):
    seen = set()
    comps = []
    for v0 in sorted(graph):
        if v0 in seen:
            continue
        if only_conflicted and not graph[v0]:
            continue
        comp = []
        stack = [v0]
        seen.add(v0)
        while stack:
            v = stack.pop()
            comp.append(v)
            for w in graph[v]:
                if w not in seen:
                    seen.add(w)
                    stack.append(w)
        comps.append(sorted(comp))
    return comps


def greedy_stable_colourings(comp, graph):
    """All proper colourings c of comp with: for every v and every l < c(v) some neighbour has colour l."""
    out = []
    assign = {}

    def rec(k):
        if k == len(comp):
            for v in comp:
                nb = {assign[w] for w in graph[v]}
                if any(l not in nb for l in range(assign[v])):
                    return
            out.append(dict(assign))
            return
        v = comp[k]
        used = {assign[w] for w in graph[v] if w in assign}
        for lev in range(len(graph[v]) + 1):
            if lev in used:
                continue
            assign[v] = lev
            rec(k + 1)
            del assign[v]

    rec(0)
    return out


def all_greedy_stable(stems, graph):
    """Set of level tuples (one level per stem) = product over components; unconflicted stems on level 0."""
    comps = components(graph)
    per = [greedy_stable_colourings(c, graph) for c in comps]
    res = set()
    for combo in itertools.product(*per):
        lev = [0] * len(stems)
        for d in combo:
            for v, l in d.items():
                lev[v] = l
        res.add(tuple(lev))
    return res


def fcfs_levels(stems, graph):
    lev = []
    for a in range(len(stems)):
        used = {lev[b] for b in range(a) if b in graph[a]}
        l = 0
        while l in used:
            l += 1
        lev.append(l)
    return lev


# ---------------------------------------------------------------------------------------------
# structural elements (C07)


def hairpins_of(n, partner):
    out = set()
    for i in range(1, n + 1):
        j = partner.get(i, 0)
        if j > i and all(partner.get(t, 0) == 0 for t in range(i + 1, j)):
            out.add((i, j))
    return out
