"""Small independent CIF 1.1 tokenizer / document model / emitter (used as oracle for C20 and as emitter for C08, C09, C15).
Imports nothing from rnapolis or mmcif."""
import re


class CifError(Exception):
    pass


def tokenize(text):
    """Yields (kind, value): kind in {'data', 'loop', 'name', 'value', 'null'}; 'null' for bare ? and . ."""
    lines = text.split("\n")
    i = 0
    n = len(lines)
    while i < n:
        line = lines[i]
        if line.startswith(";"):
            # text field until a line starting with ';'
            buf = [line[1:]]
            i += 1
            while i < n and not lines[i].startswith(";"):
                buf.append(lines[i])
                i += 1
            if i >= n:
                raise CifError("unterminated text field")
            rest = lines[i][1:]
            yield ("value", "\n".join(buf))
            lines[i] = " " + rest  # remainder of the closing line
            continue
        pos = 0
        L = len(line)
        while pos < L:
            ch = line[pos]
            if ch in " \t\r":
                pos += 1
                continue
            if ch == "#":
                break
            if ch in "'\"":
                end = pos + 1
                while True:
                    end = line.find(ch, end)
                    if end < 0:
                        raise CifError("unterminated quoted string in %r" % line)
                    if end + 1 >= L or line[end + 1] in " \t\r":
                        break
                    end += 1
                yield ("value", line[pos + 1 : end])
                pos = end + 1
                continue
            end = pos
            while end < L and line[end] not in " \t\r":
                end += 1
            tok = line[pos:end]
            low = tok.lower()
            if low.startswith("data_"):
                yield ("data", tok[5:])
            elif low == "loop_":
                yield ("loop", None)
            elif tok.startswith("_"):
                yield ("name", tok)
            elif tok in ("?", "."):
                yield ("null", tok)
            else:
                yield ("value", tok)
            pos = end
        i += 1


def parse(text):
    """Returns [(block_name, {category: (items, rows)})] with insertion-ordered dicts; values are ('v', str) or ('n', '?'/'.')."""
    blocks = []
    toks = list(tokenize(text))
    k = 0
    cur = None

    def cat_item(name):
        m = re.match(r"_([^.]+)\.(.+)$", name)
        if not m:
            raise CifError("bad item name %r" % name)
        return m.group(1), m.group(2)

    def val(t):
        return ("n", t[1]) if t[0] == "null" else ("v", t[1])

    while k < len(toks):
        kind, v = toks[k]
        if kind == "data":
            cur = {}
            blocks.append((v, cur))
            k += 1
        elif kind == "loop":
            k += 1
            names = []
            while k < len(toks) and toks[k][0] == "name":
                names.append(cat_item(toks[k][1]))
                k += 1
            vals = []
            while k < len(toks) and toks[k][0] in ("value", "null"):
                vals.append(val(toks[k]))
                k += 1
            if not names or len({c for c, _ in names}) != 1:
                raise CifError("loop with mixed or no categories")
            if len(vals) % len(names):
                raise CifError("loop value count %d not a multiple of %d" % (len(vals), len(names)))
            cat = names[0][0]
            if cur is None or cat in cur:
                raise CifError("category %s repeated / outside block" % cat)
            rows = [tuple(vals[r : r + len(names)]) for r in range(0, len(vals), len(names))]
            cur[cat] = ([i for _, i in names], rows)
        elif kind == "name":
            c, it = cat_item(v)
            if k + 1 >= len(toks) or toks[k + 1][0] not in ("value", "null"):
                raise CifError("item %s without value" % v)
            if cur is None:
                raise CifError("item outside block")
            if c not in cur:
                cur[c] = ([], [()])
            items, rows = cur[c]
            if len(rows) != 1 or it in items:
                raise CifError("key-value item %s conflicts" % v)
            items.append(it)
            rows[0] = rows[0] + (val(toks[k + 1]),)
            k += 2
        else:
            raise CifError("stray value %r" % (v,))
    return blocks


def quote(v):
    kind, s = v
    if kind == "n":
        return s
    if s == "":
        return "''"
    if "\n" in s:
        return "\n;" + s + "\n;\n"
    need = (
        any(ch in s for ch in " \t")
        or s[0] in "_#$'\";[]"
        or s.lower().startswith(("data_", "save_"))
        or s.lower() in ("loop_", "stop_", "global_")
        or s in ("?", ".")
        or "'" in s
        or '"' in s
    )
    if not need:
        return s
    # a quote character terminates only when followed by whitespace
    if not re.search(r"'\s", s + "x") and not s.endswith("'"):
        return "'" + s + "'"
    if not re.search(r'"\s', s + "x") and not s.endswith('"'):
        return '"' + s + '"'
    return "\n;" + s + "\n;\n"


def emit(blocks, style=None):
    """style: {category: 'loop'|'kv'}; default: kv for single-row categories."""
    out = []
    for name, cats in blocks:
        out.append("data_%s\n#\n" % name)
        for cat, (items, rows) in cats.items():
            st = (style or {}).get(cat) or ("kv" if len(rows) == 1 else "loop")
            if st == "kv" and len(rows) == 1:
                for it, v in zip(items, rows[0]):
                    q = quote(v)
                    out.append("_%s.%s %s\n" % (cat, it, q) if not q.startswith("\n") else "_%s.%s %s" % (cat, it, q))
            else:
                out.append("loop_\n")
                for it in items:
                    out.append("_%s.%s\n" % (cat, it))
                for row in rows:
                    line = ""
                    for v in row:
                        q = quote(v)
                        if q.startswith("\n"):
                            line = line.rstrip(" ") + q
                        else:
                            line += q + " "
                    if not line.endswith("\n"):
                        line = line.rstrip(" ") + "\n"
                    out.append(line)
            out.append("#\n")
    return "".join(out)
