"""3D building blocks: nucleotide templates (embedded coordinates), exact rigid motions, table helpers. No rnapolis imports."""
import copy
import json
import math
import os

_DATA = os.path.join(os.path.dirname(os.path.abspath(__file__)), "data", "templates.json")
with open(_DATA) as _f:
    TEMPLATES = json.load(_f)


def duplex_table():
    """14 residues of the 1ehz acceptor stem as an abstract atom table: chain A = 1..7, chain B = 66..72."""
    from mc import enumio

    t = []
    k = 1
    for r in TEMPLATES["duplex"]:
        chain = "A" if r["number"] < 60 else "B"
        for name, x, y, z, el in r["atoms"]:
            t.append(enumio.atom(k, name, r["name"], chain, r["number"], "%.3f" % x, "%.3f" % y, "%.3f" % z, element=el))
            k += 1
    return t


def cube_rotations():
    """The 24 proper rotations of the cube as integer matrices."""
    import itertools

    mats = []
    for perm in itertools.permutations(range(3)):
        for signs in itertools.product((1, -1), repeat=3):
            m = [[0] * 3 for _ in range(3)]
            for i in range(3):
                m[i][perm[i]] = signs[i]
            det = (m[0][0] * (m[1][1] * m[2][2] - m[1][2] * m[2][1]) - m[0][1] * (m[1][0] * m[2][2] - m[1][2] * m[2][0])
                   + m[0][2] * (m[1][0] * m[2][1] - m[1][1] * m[2][0]))
            if det == 1:
                mats.append(m)
    return mats


def icosahedral_rotations():
    """The 60 proper rotations of the icosahedron (irrational entries)."""
    phi = (1 + math.sqrt(5)) / 2
    a = [[-1, 0, 0], [0, -1, 0], [0, 0, 1]]  # 2-fold about z
    b = [[0, 0, 1], [1, 0, 0], [0, 1, 0]]  # 3-fold about (1,1,1)
    c = [[0.5, -phi / 2, 1 / (2 * phi)], [phi / 2, 1 / (2 * phi), -0.5], [1 / (2 * phi), 0.5, phi / 2]]  # 5-fold
    gens = [a, b, c]

    def mul(p, q):
        return [[sum(p[i][k] * q[k][j] for k in range(3)) for j in range(3)] for i in range(3)]

    def key(m):
        return tuple(round(v, 6) for row in m for v in row)

    ident = [[1.0, 0, 0], [0, 1.0, 0], [0, 0, 1.0]]
    seen = {key(ident): ident}
    frontier = [ident]
    while frontier:
        nxt = []
        for m in frontier:
            for g in gens:
                n = mul(m, g)
                if key(n) not in seen:
                    seen[key(n)] = n
                    nxt.append(n)
        frontier = nxt
    mats = list(seen.values())
    assert len(mats) == 60, len(mats)
    return mats


def apply(m, v, t=(0.0, 0.0, 0.0)):
    return tuple(sum(m[i][k] * v[k] for k in range(3)) + t[i] for i in range(3))


def transform_table(table, m, t=(0.0, 0.0, 0.0), decimals=3):
    out = []
    for a in table:
        b = dict(a)
        x, y, z = apply(m, (float(a["x"]), float(a["y"]), float(a["z"])), t)
        if decimals is None:
            b["x"], b["y"], b["z"] = x, y, z
        else:
            fmt = "%." + str(decimals) + "f"
            b["x"], b["y"], b["z"] = fmt % x, fmt % y, fmt % z
        out.append(b)
    return out


def dist(a, b):
    return math.sqrt((float(a["x"]) - float(b["x"])) ** 2 + (float(a["y"]) - float(b["y"])) ** 2 + (float(a["z"]) - float(b["z"])) ** 2)


# ---------------------------------------------------------------------------------------------
# local base frames and two/three-nucleotide placements

import numpy as _np

_BASE = {
    "A": ["N1", "C2", "N3", "C4", "C5", "C6", "N6", "N7", "C8", "N9"],
    "G": ["N1", "C2", "N2", "N3", "C4", "C5", "C6", "O6", "N7", "C8", "N9"],
    "C": ["N1", "C2", "O2", "N3", "C4", "N4", "C5", "C6"],
    "U": ["N1", "C2", "O2", "N3", "C4", "O4", "C5", "C6"],
    "T": ["N1", "C2", "O2", "N3", "C4", "O4", "C5", "C6", "C7"],
}
_local_cache = {}


def local_template(letter):
    """[(atom name, local xyz)] of the template nucleotide in its own base frame (origin = base centroid, z = base normal)."""
    if letter in _local_cache:
        return _local_cache[letter]
    t = TEMPLATES["single"][letter]
    atoms = {n: _np.array([x, y, z]) for n, x, y, z, el in t["atoms"]}
    if letter in "AG":
        n = _np.cross(atoms["N7"] - atoms["N9"], atoms["N3"] - atoms["N9"])
        gn = atoms["N9"]
    else:
        n = _np.cross(atoms["C4"] - atoms["N1"], atoms["O2"] - atoms["N1"])
        gn = atoms["N1"]
    n = n / _np.linalg.norm(n)
    c = _np.mean([atoms[a] for a in _BASE[letter] if a in atoms], axis=0)
    x = gn - c
    x = x - n * _np.dot(x, n)
    x = x / _np.linalg.norm(x)
    y = _np.cross(n, x)
    loc = [(name, _np.array([_np.dot(p - c, x), _np.dot(p - c, y), _np.dot(p - c, n)])) for name, p in atoms.items()]
    _local_cache[letter] = loc
    return loc


def place(letter, r, theta_deg, phi_deg, flip, rise=0.0, tilt_deg=0.0):
    """Atoms of a nucleotide placed relative to a nucleotide sitting at the origin frame."""
    th, ph, ti = math.radians(theta_deg), math.radians(phi_deg), math.radians(tilt_deg)
    out = []
    for name, q in local_template(letter):
        x, y, z = q
        if flip:
            y, z = -y, -z
        # tilt about the y axis
        x, z = x * math.cos(ti) + z * math.sin(ti), -x * math.sin(ti) + z * math.cos(ti)
        # in-plane rotation
        x, y = x * math.cos(ph) - y * math.sin(ph), x * math.sin(ph) + y * math.cos(ph)
        out.append((name, _np.array([x + r * math.cos(th), y + r * math.sin(th), z + rise])))
    return out


def origin(letter):
    return [(name, q.copy()) for name, q in local_template(letter)]
