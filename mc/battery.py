"""Determinism battery (C14): prints one JSON object {key: sha256-of-output}. Run in fresh interpreters under different
PYTHONHASHSEED values; any differing key is a real, replayable nondeterminism."""
import os
import sys

SRC = os.environ.get("RNAPOLIS_SRC")
if SRC:
    sys.path.insert(0, SRC)
sys.dont_write_bytecode = True
os.environ.setdefault("LOGLEVEL", "ERROR")

import contextlib
import hashlib
import io
import json
import logging
import shutil
import tempfile

logging.disable(logging.CRITICAL)

TESTS = os.environ.get("RNAPOLIS_TESTS", "/repo/tests")
SMALL = ["1A1T_1_B.cif", "1DFU_1_M-N.cif", "1HMH_1_E.cif", "4WTI_1_T-P.cif", "184D.cif", "1JJP.cif", "6FC9.cif", "1E7K_1_C.cif", "488d.pdb", "1ATO.pdb"]
MORE = ["1ehz-assembly-1.cif", "2HY9.cif", "6RS3.cif", "4qln.cif", "4qln.pdb", "6INQ.cif", "1E7K_1_C_modified.cif", "8btk_B7.cif", "q-ugg-5k-salt_400-500ns_frame1065.pdb"]


def sha(x):
    if not isinstance(x, (bytes, str)):
        x = repr(x)
    if isinstance(x, str):
        x = x.encode()
    return hashlib.sha256(x).hexdigest()[:20]


def guarded(out, key, fn):
    try:
        out[key] = sha(fn())
    except SystemExit as e:
        out[key] = "EXIT:%s" % e.code
    except Exception as e:  # noqa - an exception is an output as well
        out[key] = "EXC:%s" % type(e).__name__


def run_main(mod, argv, files=()):
    """Runs a CLI main in-process; returns stdout + contents of the named output files."""
    for f in files:  # never read a file left behind by an earlier item
        if os.path.isdir(f):
            shutil.rmtree(f, ignore_errors=True)
        elif os.path.exists(f):
            os.remove(f)
    buf = io.StringIO()
    old = sys.argv
    sys.argv = [mod.__name__] + argv
    try:
        with contextlib.redirect_stdout(buf), contextlib.redirect_stderr(io.StringIO()):
            mod.main()
    finally:
        sys.argv = old
    res = [buf.getvalue()]
    for f in files:
        if os.path.isdir(f):
            for name in sorted(os.listdir(f)):
                with open(os.path.join(f, name), "rb") as fh:
                    res.append(name + ":" + fh.read().decode("utf8", "replace"))
        elif os.path.exists(f):
            with open(f, "rb") as fh:
                res.append(fh.read().decode("utf8", "replace"))
        else:
            res.append("<no file>")
    return "\n@@\n".join(res)


def two_d(out, only=None, reverse=False, part=None):
    from mc import enum2d
    from mc.ref import ref2d
    from rnapolis.common import BpSeq

    cases = []
    # D(2) with stem lengths up to 4: the same crossing pattern under many length vectors (another optimum each time)
    for c in list(enum2d.M(6)) + list(enum2d.D(3)) + list(enum2d.D(2, lens=(1, 2, 3, 4), kmin=2, gapvals=(1,))):
        stems = ref2d.stems_of(c["pairs"])
        g = ref2d.stem_graph(stems)
        if any(g[v] for v in g):
            cases.append(c)
    if reverse:
        # the reversed battery run meets the structures in the opposite order: an answer must not depend on what was converted before
        cases = cases[::-1]
    if part:
        # one slice of the list in a process of its own: every structure is met after another history of earlier conversions than in the full run
        cases = cases[part[0] :: part[1]]
    for c in cases:
        key = "2d:%d:%s" % (c["n"], "-".join("%d.%d" % tuple(p) for p in c["pairs"]))
        if only and not key.startswith(only):
            continue
        b = BpSeq.from_string(enum2d.bpseq_text(c))
        guarded(out, key + ":all_dot_brackets", lambda: [x.structure for x in b.all_dot_brackets])
        guarded(out, key + ":others", lambda: [str(b), b.dot_bracket.structure, b.fcfs.structure, [str(e) for g in b.elements for e in g],
                                               str(b.without_isolated()), str(b.without_pseudoknots())])


def three_d(out, names, tmp, only=None):
    from rnapolis import adapter, annotator, clashfinder, motif_extractor, parser, parser_v2, splitter, transformer
    from rnapolis.tertiary import Mapping2D3D

    for name in names:
        path = name if os.path.isabs(name) else os.path.join(TESTS, name)
        name = os.path.basename(name)
        key = "3d:" + name
        if only and not key.startswith(only):
            continue
        if not os.path.exists(path):
            continue

        def lib():
            with open(path) as f:
                s = parser.read_3d_structure(f, None)
            res = []
            for gaps in (False, True):
                s2d, dbs = annotator.extract_secondary_structure(s, None, gaps, True)
                res.append([repr(s2d.baseInteractions), s2d.bpseq, s2d.dotBracket, s2d.extendedDotBracket, dbs,
                            [str(e) for g in (s2d.stems, s2d.singleStrands, s2d.hairpins, s2d.loops) for e in g], repr(s2d.interStemParameters)])
                pj, pc = os.path.join(tmp, "o.json"), os.path.join(tmp, "o.csv")
                annotator.write_json(pj, s2d)
                annotator.write_csv(pc, s2d)
                res.append(open(pj).read())
                res.append(open(pc).read())
            return res

        guarded(out, key + ":library", lib)
        guarded(out, key + ":annotator-cli", lambda: run_main(annotator, [path, "-a", "-b", tmp + "/a.bpseq", "-c", tmp + "/a.csv", "-j", tmp + "/a.json",
                                                                        "--inter-stem-csv", tmp + "/a.is.csv", "--stems-csv", tmp + "/a.st.csv", "-p", tmp + "/a.pml"],
                                                               [tmp + "/a.bpseq", tmp + "/a.csv", tmp + "/a.json", tmp + "/a.is.csv", tmp + "/a.st.csv", tmp + "/a.pml"]))
        guarded(out, key + ":annotator-cli-extended", lambda: run_main(annotator, [path, "-e", "-f"]))
        for flags in ([], ["--ignore-occupancy", "--enable-molprobity-mode"], ["--ignore-occupancy", "--nucleic-acid-only", "--ignore-autoclashes"]):
            guarded(out, key + ":clashfinder" + "".join(flags), lambda: run_main(clashfinder, [path] + flags + ["--csv", tmp + "/c.csv"], [tmp + "/c.csv"]))

        def v2():
            with open(path) as f:
                df = parser_v2.parse_cif_atoms(f) if name.endswith(".cif") else parser_v2.parse_pdb_atoms(f)
            res = [parser_v2.write_cif(df)]
            try:
                res.append(parser_v2.write_pdb(parser_v2.fit_to_pdb(df)))
            except Exception as e:  # noqa
                res.append("EXC:" + type(e).__name__)
            return res

        guarded(out, key + ":parser_v2-write", v2)
        sd = os.path.join(tmp, "split")
        shutil.rmtree(sd, ignore_errors=True)
        guarded(out, key + ":splitter", lambda: run_main(splitter, ["-o", sd, "-f", "mmCIF", path], [sd]).replace(tmp, "TMP"))
        if name.endswith(".cif"):
            guarded(out, key + ":transformer-lib", lambda: [transformer.copy_from_to(open(path).read()), transformer.replace_value(open(path).read())])
            guarded(out, key + ":transformer-cli", lambda: run_main(transformer, [path, tmp + "/t.cif", "--category", "atom_site", "--replace", "auth_asym_id", "--values", "XYZWVUTSRQ"], [tmp + "/t.cif"]))
    # external tools
    for struct, ext, tool in (("184D.cif", "184D-fr3d.txt", "fr3d"),):
        key = "3d:adapter:" + ext
        if only and not key.startswith(only):
            continue
        guarded(out, key, lambda: run_main(adapter, [os.path.join(TESTS, struct), "--external", os.path.join(TESTS, ext), "--tool", tool, "-a",
                                                    "-c", tmp + "/x.csv", "-j", tmp + "/x.json"], [tmp + "/x.csv", tmp + "/x.json"]))
    for dbn in ("1EHZ.dbn", "1ET4-A.dbn"):
        key = "2d:motif_extractor:" + dbn
        if only and not key.startswith(only):
            continue
        guarded(out, key, lambda: run_main(motif_extractor, ["--dbn", os.path.join(TESTS, dbn)]))


def mapping_conflicts(out, tmp, only=None):
    """External pair lists in which a nucleotide has several canonical partners of the same score class (ties in conflict resolution),
    through Mapping2D3D and through the adapter CLI with an FR3D listing."""
    import itertools

    from rnapolis import adapter
    from rnapolis.common import BasePair, LeontisWesthof, Residue, Saenger
    from rnapolis.parser import read_3d_structure
    from rnapolis.tertiary import Mapping2D3D

    path = os.path.join(TESTS, "1A1T_1_B.cif")
    with open(path) as f:
        s = read_3d_structure(f, 1)
    nts = [r for r in s.residues if r.is_nucleotide]
    idx = [(0, 19), (0, 18), (1, 18), (1, 19), (2, 17), (0, 17), (2, 19)]
    # the same structure with its residues renumbered so that three consecutive residues share a number and differ by insertion code only
    # (competing partners such as 16 / 16A / 16B): the conflict-resolution order must not depend on the interpreter
    from mc import corpus, enumio
    from mc.props.c05 import apply_abstract

    t2 = apply_abstract([dict(a, model=1) for a in corpus.table("1A1T_1_B.cif") if a["altloc"] in (None, "A")], ("relabel", "icode-triples", None))
    p2 = os.path.join(tmp, "1A1T-icodes.cif")
    with open(p2, "w") as f:
        f.write(enumio.emit_cif(t2, label_differs=True))
    with open(p2) as f:
        s2 = read_3d_structure(f, 1)
    nts2 = [r for r in s2.residues if r.is_nucleotide]
    for r in (2, 3):
        for combo in itertools.combinations(idx, r):
            key = "3d:mapping-icodes:" + "-".join("%d.%d" % c for c in combo)
            if only and not key.startswith(only):
                continue

            def fn2(combo=combo):
                bps = [BasePair(Residue(nts2[i].label, nts2[i].auth), Residue(nts2[j].label, nts2[j].auth), LeontisWesthof.cWW, None) for i, j in combo]
                m = Mapping2D3D(s2, bps, [], False)
                return [str(m.bpseq), m.dot_bracket, m.extended_dot_bracket, m.all_dot_brackets]

            guarded(out, key + ":mapping", fn2)
    # the structure twice in one file, as chain B and - moved 40 A away - as chain b: competing partners that differ in the CASE of the chain name only
    base = [dict(a, model=1) for a in corpus.table("1A1T_1_B.cif") if a["altloc"] in (None, "A")]
    t3 = [dict(a) for a in base]
    for a in base:
        b = dict(a, chain=a["chain"].lower())
        b["x"] = "%.3f" % (float(a["x"]) + 40.0)
        t3.append(b)
    for k, a in enumerate(t3):
        a["serial"] = k + 1
    p3 = os.path.join(tmp, "1A1T-Bb.cif")
    with open(p3, "w") as f:
        f.write(enumio.emit_cif(t3))
    with open(p3) as f:
        s3 = read_3d_structure(f, 1)
    nts3 = [r for r in s3.residues if r.is_nucleotide]
    n = len(nts3) // 2
    for combo in ([(0, 19), (0, 19 + n)], [(0, 19 + n), (0, 19)], [(0, 19), (0, 19 + n), (1, 18)], [(n, 19), (0, 19), (n, 19 + n)], [(1, 18 + n), (1, 18), (0, 19 + n), (0, 19)]):
        key = "3d:mapping-case:" + "-".join("%d.%d" % c for c in combo)
        if only and not key.startswith(only):
            continue

        def fn3(combo=combo):
            bps = [BasePair(Residue(nts3[i].label, nts3[i].auth), Residue(nts3[j].label, nts3[j].auth), LeontisWesthof.cWW, None) for i, j in combo]
            m = Mapping2D3D(s3, bps, [], False)
            return [str(m.bpseq), m.dot_bracket, m.extended_dot_bracket, m.all_dot_brackets]

        guarded(out, key + ":mapping", fn3)
    for r in (2, 3, 4):
        for combo in itertools.combinations(idx, r):
            key = "3d:mapping:" + "-".join("%d.%d" % c for c in combo)
            if only and not key.startswith(only):
                continue

            def fn(combo=combo):
                bps = [BasePair(Residue(nts[i].label, nts[i].auth), Residue(nts[j].label, nts[j].auth), LeontisWesthof.cWW, None) for i, j in combo]
                m = Mapping2D3D(s, bps, [], False)
                return [str(m.bpseq), m.dot_bracket, m.extended_dot_bracket, m.all_dot_brackets]

            guarded(out, key + ":mapping", fn)
    key = "3d:adapter-conflicts"
    if not only or key.startswith(only):
        def unit(r):
            return "1A1T|1|%s|%s|%d" % (r.chain, r.name, r.number)

        lines = []
        for i, j in idx:
            lines.append("%s\tcWW\t%s" % (unit(nts[i]), unit(nts[j])))
            lines.append("%s\tncWW\t%s" % (unit(nts[j]), unit(nts[i])))
        ext = os.path.join(tmp, "conflicts-fr3d.txt")
        with open(ext, "w") as f:
            f.write("\n".join(lines) + "\n")
        guarded(out, key + ":adapter", lambda: run_main(adapter, [path, "--external", ext, "--tool", "fr3d", "-a", "-c", tmp + "/y.csv", "-j", tmp + "/y.json"], [tmp + "/y.csv", tmp + "/y.json"]))


def generated_inputs(tmp):
    """Files derived from 1ATO.pdb in which every residue has an unrecognisable name (so that the one-letter code is guessed from the atoms) and
    has lost a class of base atoms, which makes several bases fit equally well: the guess must not depend on the interpreter."""
    from mc import corpus, enumio

    base = corpus.table("1ATO.pdb")
    out = []
    for tag, strip in (("none", ()), ("no-N4-O4", ("N4", "O4")), ("no-exocyclic", ("N4", "O4", "N6", "O6", "N2", "O2")), ("ring-only", ("N4", "O4", "N6", "O6", "N2", "O2", "N7", "C8", "N9"))):
        t = [dict(a) for a in base if a["name"] not in strip]
        names = {}
        for a in t:
            k = (a["chain"], a["resseq"], a["icode"])
            a["resname"] = names.setdefault(k, "M%02d" % (len(names) % 100))
        for k, a in enumerate(t):
            a["serial"] = k + 1
        path = os.path.join(tmp, "gen-1ATO-%s.pdb" % tag)
        with open(path, "w") as f:
            f.write(enumio.emit_pdb(t))
        out.append(path)
    out.extend(twin_inputs(tmp))
    return out


def twin_inputs(tmp):
    """Pairs of two-nucleotide structures with identical residue identities and letters but different geometry (the same edges paired once in cis
    and once in trans; committed placements of mc/data/g2_seeds.json): whatever one file leaves behind in the process must not leak into the other -
    the forward and the reversed battery run process them in opposite orders."""
    from mc import enumio
    from mc.props import ann_families as fam

    with open(os.path.join(os.path.dirname(os.path.abspath(__file__)), "data", "g2_seeds.json")) as f:
        seeds = json.load(f)
    out = []
    k = 0
    for key in sorted(seeds):
        center = key.split(":")[0]
        by = {}
        for sd in seeds[key]:
            by.setdefault((sd["l2"], sd["lw"][1:]), {}).setdefault(sd["lw"][0], sd)
        for (l2, edges), ct in sorted(by.items()):
            if "c" in ct and "t" in ct and k < 6:
                k += 1
                for which in ("c", "t"):
                    sd = ct[which]
                    s3 = fam.structure_of(dict(g=1, l1=center, l2=l2, r=sd["r"], th=sd["th"], ph=sd["ph"], flip=sd["flip"], idmode=0))
                    t = []
                    for r in s3.residues:
                        for a in r.atoms:
                            t.append(enumio.atom(len(t) + 1, a.name, r.name, r.chain, r.number, "%.3f" % a.x, "%.3f" % a.y, "%.3f" % a.z, element=a.name[0]))
                    path = os.path.join(tmp, "gen-twin%d-%s%s-%s.pdb" % (k, center, l2, "cis" if which == "c" else "trans"))
                    with open(path, "w") as fh:
                        fh.write(enumio.emit_pdb(t))
                    out.append(path)
    return out


def main():
    tier = sys.argv[1] if len(sys.argv) > 1 else "quick"
    only = sys.argv[2] if len(sys.argv) > 2 else None
    if only in ("", "-"):
        only = None
    reverse = len(sys.argv) > 3 and sys.argv[3] == "reverse"
    part = [int(x) for x in sys.argv[3][5:].split("/")] if len(sys.argv) > 3 and sys.argv[3].startswith("part:") else None
    out = {}
    if part:
        two_d(out, only, part=part)
        json.dump(out, sys.stdout, sort_keys=True)
        return
    tmp = tempfile.mkdtemp(prefix="verif-battery-")
    try:
        names = SMALL + (MORE if tier == "thorough" else []) + generated_inputs(tmp)
        if reverse:
            # same inputs, processed in the opposite order: an output must not depend on what the interpreter processed before
            three_d(out, names[::-1], tmp, only)
            mapping_conflicts(out, tmp, only)
            two_d(out, only, reverse=True)
        else:
            two_d(out, only)
            mapping_conflicts(out, tmp, only)
            three_d(out, names, tmp, only)
    finally:
        shutil.rmtree(tmp, ignore_errors=True)
    json.dump(out, sys.stdout, sort_keys=True)


if __name__ == "__main__":
    main()
