"""Shared engine: sharded exhaustive enumeration on the real code, evidence, replay, known findings.

A property module (mc/props/cNN.py) provides

    ID, LEVEL, RULE, ASSUMPTIONS, BOUNDS(tier) -> dict
    families(tier) -> [(name, generator_function, chunk)]     cases are JSON-able dicts
    run_case(case) -> dict(nontrivial=bool, key=str|None, outcome=str,
                           violations=[dict(signature=, message=, observed=, expected=)],
                           states=int, transitions=int, traces=int, undecided=bool)

The engine enumerates every family completely (no sampling); worker w of W takes the cases whose
(index // chunk) % W == w.  Nothing random decides anything: VERIF_SEED only rotates which explored
cases are copied into coverage.samples.
"""
import os
import sys

SRC = os.environ.get("RNAPOLIS_SRC")
if SRC:
    sys.path.insert(0, SRC)
sys.dont_write_bytecode = True
os.environ["PYTHONDONTWRITEBYTECODE"] = "1"
os.environ.setdefault("LOGLEVEL", "ERROR")

import atexit
import collections
import hashlib
import importlib
import json
import logging
import multiprocessing
import shutil
import subprocess
import tempfile
import time
import traceback

ROOT = os.path.dirname(os.path.dirname(os.path.abspath(__file__)))
# runs against a scratch source root (mutant runs) never overwrite the committed evidence
EVIDENCE_DIR = os.path.join(ROOT, "evidence") if not SRC else os.path.join(ROOT, "replays", "evidence-scratch")
REPLAY_DIR = os.path.join(ROOT, "replays")
KNOWN_FILE = os.path.join(ROOT, "known_findings.json")
NWORKERS = int(os.environ.get("VERIF_WORKERS", "16"))
MAX_VIOL_PER_WORKER = 40

logging.disable(logging.CRITICAL)

_scratch = None


def scratch_dir():
    """Per-process scratch directory (removed at exit)."""
    global _scratch
    if _scratch is None or not os.path.isdir(_scratch) or _scratch_pid != os.getpid():
        _make_scratch()
    return _scratch


_scratch_pid = None


def _make_scratch():
    global _scratch, _scratch_pid
    _scratch = tempfile.mkdtemp(prefix="verif-mc-")
    _scratch_pid = os.getpid()
    pid = _scratch_pid
    path = _scratch

    def _rm():
        if os.getpid() == pid:
            shutil.rmtree(path, ignore_errors=True)

    atexit.register(_rm)


def digest(obj):
    if not isinstance(obj, str):
        obj = json.dumps(obj, sort_keys=True, default=str)
    return hashlib.blake2b(obj.encode(), digest_size=8).digest()


def load_module(pid):
    return importlib.import_module("mc.props." + pid.lower())


def rnapolis_exception_signature(exc):
    """If exc was raised from inside rnapolis code, return a signature for it, else None."""
    tb = traceback.extract_tb(exc.__traceback__)
    inner = None
    for fr in tb:
        if "/rnapolis/" in fr.filename.replace("\\", "/"):
            inner = fr
    if inner is None:
        return None
    return "exception:%s@%s:%s" % (type(exc).__name__, os.path.basename(inner.filename), inner.name)


def observe(fn, *args, **kwargs):
    """Run rnapolis code; an exception is an observation, not an engine error."""
    try:
        return ("ok", fn(*args, **kwargs))
    except Exception as exc:  # noqa
        sig = rnapolis_exception_signature(exc) or ("exception:%s@harness-call" % type(exc).__name__)
        return ("exc", sig, "%s: %s" % (type(exc).__name__, str(exc)[:300]))


class CaseTimeout(BaseException):
    """Raised by the per-case watchdog (BaseException: library code that catches Exception must not swallow it)."""


# One case of any family takes well under a minute on the unchanged tree (the slowest: a 100 000-atom table of C10, ~20 s). A case that has not
# answered after CASE_LIMIT seconds is not going to: the library call does not terminate in any useful sense (e.g. an enumeration that exploded). It is
# reported as a violation of that case - every property presupposes that the call returns - instead of hanging the whole check.
CASE_LIMIT = int(os.environ.get("VERIF_CASE_LIMIT", "0")) or None
CASE_LIMITS = dict(quick=240, thorough=900)
_tier_for_limit = ["quick"]
_timeouts = [0]


def _on_alarm(signum, frame):
    raise CaseTimeout()


def safe_run_case(mod, case):
    import signal

    limit = CASE_LIMIT or CASE_LIMITS.get(_tier_for_limit[0], 240)
    if _timeouts[0]:
        limit = min(limit, 30)  # this process has already met a case that never answered: the remaining ones get half a minute each
    old = signal.signal(signal.SIGALRM, _on_alarm)
    signal.alarm(limit)
    try:
        return _safe_run_case(mod, case)
    except CaseTimeout:
        _timeouts[0] += 1
        return dict(
            nontrivial=True,
            outcome="no-answer",
            violations=[
                dict(
                    signature="no-answer-within-%ds" % limit,
                    message="the library did not answer this case within %d s (every case of this family takes seconds at most on the unchanged tree)" % limit,
                    observed="still running after %d s" % limit,
                    expected="the call returns",
                    no_confirm=True,
                )
            ],
        )
    finally:
        signal.alarm(0)
        signal.signal(signal.SIGALRM, old)


def _safe_run_case(mod, case):
    try:
        res = mod.run_case(case)
    except Exception as exc:  # noqa
        sig = rnapolis_exception_signature(exc)
        if sig is None:
            if os.environ.get("VERIF_STRICT"):
                raise
            # The judge itself failed on what the library returned (e.g. an interaction without residues, a text that is not the format the
            # observation point defines). On the unchanged tree this never happens (every run there is silent); on a changed tree the value
            # returned no longer has the shape the property speaks about. Reported as such - with the harness frame - instead of ending the
            # run in an engine error that would hide every other finding. VERIF_STRICT=1 re-raises (harness debugging).
            fr = traceback.extract_tb(exc.__traceback__)[-1]
            return dict(
                nontrivial=True,
                outcome="unjudgeable",
                violations=[
                    dict(
                        signature="unjudgeable:%s@%s:%s" % (type(exc).__name__, os.path.basename(fr.filename), fr.name),
                        message="the value the library returned for this case could not be judged: %s: %s (raised in the harness at %s:%d while reading the returned value)"
                        % (type(exc).__name__, str(exc)[:200], os.path.basename(fr.filename), fr.lineno),
                        observed=traceback.format_exc()[-1500:],
                        expected="a value of the shape the property's observation point defines",
                    )
                ],
            )
        res = dict(
            nontrivial=True,
            outcome="exception",
            violations=[
                dict(
                    signature=sig,
                    message="uncaught exception from rnapolis code: %s: %s" % (type(exc).__name__, str(exc)[:300]),
                    observed=traceback.format_exc()[-1500:],
                    expected="call returns",
                )
            ],
        )
    return res


_COVER = os.environ.get("VERIF_COVER")
_cover_lines = set()


def _cover_start():
    """Diagnostic only (VERIF_COVER=1): which lines of rnapolis does this check execute? Never decides anything."""
    mon = sys.monitoring
    tool = mon.COVERAGE_ID
    try:
        mon.use_tool_id(tool, "verif-cover")
    except ValueError:
        pass

    def on_line(code, line):
        fn = code.co_filename
        if "/rnapolis/" in fn:
            _cover_lines.add((os.path.basename(fn), line))
        return mon.DISABLE

    mon.register_callback(tool, mon.events.LINE, on_line)
    mon.set_events(tool, mon.events.LINE)


class debug_logging:
    """Environment answer 'the log level is DEBUG': logging is switched on (root logger at DEBUG, nothing emitted - every handler is muted) for the
    duration of one case, so that code guarded by isEnabledFor(DEBUG) / lazy debug messages runs as it does under LOGLEVEL=DEBUG."""

    def __enter__(self):
        root = logging.getLogger()
        self.saved = (logging.root.manager.disable, root.level, [(h, h.level) for h in root.handlers])
        logging.disable(logging.NOTSET)
        root.setLevel(logging.DEBUG)
        for h in root.handlers:
            h.setLevel(logging.CRITICAL + 1)
        if not root.handlers:
            self.null = logging.NullHandler()
            root.addHandler(self.null)
        else:
            self.null = None

    def __exit__(self, *a):
        root = logging.getLogger()
        dis, lvl, hs = self.saved
        if self.null is not None:
            root.removeHandler(self.null)
        for h, l in hs:
            h.setLevel(l)
        root.setLevel(lvl)
        logging.disable(dis if dis else logging.CRITICAL)


DEBUG_STRIDE = 8  # every 8th case of every family is executed a second time with the log level at DEBUG


def _worker(args):
    wid, nw, pid, tier, seed = args
    _tier_for_limit[0] = tier
    if _COVER:
        _cover_start()
    mod = load_module(pid)
    st = dict(
        evaluations=0,
        nontrivial=set(),
        outcomes=collections.Counter(),
        violations=[],
        nviol=0,
        samples=[],
        states=0,
        transitions=0,
        traces=0,
        undecided=0,
        bulk=0,
        fam={},
        sigcount=collections.Counter(),
        error=None,
        extra=collections.Counter(),
    )
    t0 = time.time()
    try:
        if hasattr(mod, "worker_init"):
            mod.worker_init(tier)
        only = [x for x in os.environ.get("VERIF_ONLY_FAMILIES", "").split(",") if x]  # diagnostic: restrict a run to some families (never set by the registered commands)
        for fam in mod.families(tier):
            name, gen = fam[0], fam[1]
            if only and not any(name.startswith(x) for x in only):
                continue
            chunk = fam[2] if len(fam) > 2 else 1
            fst = st["fam"].setdefault(name, dict(evaluations=0, nontrivial=0, wall=0.0))
            tf = time.time()
            for idx, case in enumerate(gen()):
                if (idx // chunk) % nw != wid:
                    continue
                res = safe_run_case(mod, case)
                if idx % DEBUG_STRIDE == 3 and not getattr(mod, "NO_DEBUG_RERUN", False):
                    # the same case once more with the log level at DEBUG: an answer must not depend on whether anybody is listening
                    with debug_logging():
                        res2 = safe_run_case(mod, case)
                    st["extra"]["cases_repeated_at_loglevel_DEBUG"] += 1
                    have = {v["signature"] for v in res.get("violations") or []}
                    for v in res2.get("violations") or []:
                        if v["signature"] not in have:
                            res.setdefault("violations", []).append(dict(v, signature=v["signature"] + ":loglevel=DEBUG", message="(only with the log level at DEBUG) " + (v.get("message") or ""), debug_level=True))
                st["evaluations"] += res.get("evaluations", 1)
                fst["evaluations"] += res.get("evaluations", 1)
                st["bulk"] += res.get("bulk_nontrivial", 0)
                st["outcomes"][str(res.get("outcome", "ok"))] += 1
                st["states"] += res.get("states", 0)
                st["transitions"] += res.get("transitions", 0)
                st["traces"] += res.get("traces", 0)
                for k, v in (res.get("extra") or {}).items():
                    st["extra"][k] += v
                if res.get("undecided"):
                    st["undecided"] += 1
                if res.get("nontrivial"):
                    key = res.get("key")
                    st["nontrivial"].add(digest(key if key is not None else [name, case]))
                    fst["nontrivial"] += 1
                    if len(st["samples"]) < 3 and (idx + seed) % 7 == 0:
                        st["samples"].append(dict(family=name, index=idx, case=_shorten(case), outcome=res.get("outcome", "ok")))
                for v in res.get("violations") or []:
                    st["nviol"] += 1
                    st["sigcount"][v["signature"]] += 1
                    if st["sigcount"][v["signature"]] <= 2 and len(st["violations"]) < MAX_VIOL_PER_WORKER:
                        st["violations"].append(dict(family=name, index=idx, case=case, worker=[wid, nw], **v))
            fst["wall"] += time.time() - tf
    except Exception:  # harness bug
        st["error"] = traceback.format_exc()
    st["nontrivial"] = list(st["nontrivial"])
    st["wall"] = time.time() - t0
    if _COVER:
        st["cover"] = sorted(_cover_lines)
    return st


def _shorten(case, limit=600):
    s = json.dumps(case, sort_keys=True, default=str)
    if len(s) <= limit:
        return case
    return {"_truncated_json": s[:limit] + "..."}


def load_known():
    if not os.path.exists(KNOWN_FILE):
        return []
    with open(KNOWN_FILE) as f:
        return json.load(f).get("findings", [])


def run_check(pid, tier, seed):
    pid = pid.upper()
    mod = load_module(pid)
    os.makedirs(EVIDENCE_DIR, exist_ok=True)
    t0 = time.time()
    nw = int(getattr(mod, "WORKERS", NWORKERS))
    ctx = multiprocessing.get_context("fork")
    with ctx.Pool(nw) as pool:
        parts = pool.map(_worker, [(w, nw, pid, tier, seed) for w in range(nw)], chunksize=1)
    errors = [p["error"] for p in parts if p["error"]]
    if errors:
        sys.stderr.write("ENGINE ERROR in %s:\n%s\n" % (pid, errors[0]))
        return 2

    if _COVER:
        cov_lines = set()
        for p in parts:
            cov_lines.update(tuple(x) for x in p.get("cover", []))
        os.makedirs(os.path.join(REPLAY_DIR, "coverage"), exist_ok=True)
        with open(os.path.join(REPLAY_DIR, "coverage", "%s-%s.json" % (pid, tier)), "w") as f:
            json.dump(sorted(cov_lines), f)

    evaluations = sum(p["evaluations"] for p in parts)
    nontrivial = set()
    outcomes = collections.Counter()
    extra = collections.Counter()
    fam = {}
    samples = []
    for p in parts:
        nontrivial.update(p["nontrivial"])
        outcomes.update(p["outcomes"])
        extra.update(p["extra"])
        samples.extend(p["samples"])
        for k, v in p["fam"].items():
            d = fam.setdefault(k, dict(evaluations=0, nontrivial=0, cpu_s=0.0))
            d["evaluations"] += v["evaluations"]
            d["nontrivial"] += v["nontrivial"]
            d["cpu_s"] = round(d["cpu_s"] + v["wall"], 2)
    samples.sort(key=lambda s: (s["family"], s["index"]))
    if len(samples) > 8:
        k = seed % len(samples)
        samples = (samples[k:] + samples[:k])[:8]

    # extra in-process phases (e.g. cross-process conformance for C14)
    post = None
    post_viol = []
    if hasattr(mod, "post_phase"):
        post = mod.post_phase(tier, seed)
        post_viol = post.pop("violations", [])
        evaluations += post.get("evaluations", 0)

    # violations: smallest index per signature
    by_sig = {}
    sigcount = collections.Counter()
    for p in parts:
        sigcount.update(p["sigcount"])
        for v in p["violations"]:
            cur = by_sig.get(v["signature"])
            if cur is None or (v["family"], v["index"]) < (cur["family"], cur["index"]):
                by_sig[v["signature"]] = v
    for v in post_viol:
        sigcount[v["signature"]] += 1
        by_sig.setdefault(v["signature"], dict(family="post", index=0, **v))

    known = [k for k in load_known() if k.get("property") == pid]
    known_active = {k["signature"]: k for k in known if k.get("status") == "known"}
    known_hit, new = [], []
    for sig, v in sorted(by_sig.items()):
        if sig in known_active:
            known_hit.append((sig, v))
        else:
            new.append((sig, v))

    lines = []
    rc = 0
    for sig, v in known_hit:
        lines.append("KNOWN-FINDING: property=%s %s [signature %s; %d case(s) this run]" % (pid, known_active[sig]["what"], sig, sigcount[sig]))
    replay_paths = []
    for sig, v in new:
        os.makedirs(os.path.join(REPLAY_DIR, pid), exist_ok=True)
        path = os.path.join(REPLAY_DIR, pid, hashlib.sha1(sig.encode()).hexdigest()[:12] + ".json")
        with open(path, "w") as f:
            json.dump(dict(property=pid, signature=sig, family=v["family"], index=v["index"], case=v["case"] if "case" in v else None,
                           message=v.get("message"), observed=v.get("observed"), expected=v.get("expected"), cases_with_signature=sigcount[sig],
                           tier=tier, worker=v.get("worker")), f, indent=1, default=str)
        # confirm in a fresh process: the same case must fail again
        if v.get("case") is not None and not v.get("no_confirm"):
            cp = subprocess.run([sys.executable, "-m", "mc.main", pid, "--replay", path, "--confirm"], cwd=ROOT, capture_output=True, text=True)
            if cp.returncode not in (1, 3) and v.get("worker"):
                # not reproducible in isolation: does it reproduce after the cases the same worker process ran before it
                # (behaviour that depends on the history of calls in the process, e.g. a module-level cache)?
                cp = subprocess.run([sys.executable, "-m", "mc.main", pid, "--replay", path, "--confirm", "--history"], cwd=ROOT, capture_output=True, text=True)
                if cp.returncode == 1:
                    with open(path) as f:
                        rp = json.load(f)
                    rp["history_dependent"] = True
                    rp["message"] = "(fails only after the preceding cases of the same worker process were executed: history-dependent behaviour) " + (rp.get("message") or "")
                    with open(path, "w") as f:
                        json.dump(rp, f, indent=1, default=str)
                    v["message"] = rp["message"]
            if cp.returncode == 3:
                # the case fails again on replay, but the first difference found is another one (e.g. another field of the annotation): still the same failing case
                v["message"] = "(on replay the same case fails with another signature) " + (v.get("message") or "")
            elif cp.returncode != 1:
                # Observed by the exploring worker but reproduced neither in isolation nor after the worker's case history. On the unchanged tree no
                # violation reaches this point; on a changed tree this means the behaviour depends on state the replay does not rebuild (hash seed,
                # object addresses, files left behind). It is reported - as unconfirmed - rather than hidden behind an engine error.
                sys.stderr.write("note: violation %s of %s did not reproduce on replay (rc=%s)\n" % (sig, pid, cp.returncode))
                v["message"] = "(observed by the exploring worker; NOT reproduced on replay - depends on process state the replay does not rebuild) " + (v.get("message") or "")
        replay_paths.append(path)
        lines.append("VIOLATION property=%s replay=%s" % (pid, path))
        lines.append("  signature=%s cases=%d first: %s" % (sig, sigcount[sig], (v.get("message") or "")[:300]))
        rc = 1

    wall = time.time() - t0
    level = mod.LEVEL
    cov = dict(
        evaluations=evaluations,
        distinct_nontrivial=len(nontrivial) + sum(p["bulk"] for p in parts) + (post.get("distinct_nontrivial", 0) if post else 0),
        rule=mod.RULE,
        samples=samples or [dict(note="no non-trivial sample selected")],
        outcomes=dict(outcomes.most_common(40)),
        distinct_outcomes=len(outcomes),
        families=fam,
        undecided=sum(p["undecided"] for p in parts),
        exhaustive=True,
        bounds=mod.BOUNDS(tier) if hasattr(mod, "BOUNDS") else {},
        known_findings_reported=[s for s, _ in known_hit],
        new_violation_signatures=[s for s, _ in new],
        workers=nw,
        source_root=SRC or "/repo/src (editable install)",
    )
    if extra:
        cov["counters"] = dict(extra)
    st = sum(p["states"] for p in parts)
    tr = sum(p["transitions"] for p in parts)
    tv = sum(p["traces"] for p in parts)
    if level == "model_checking" or st:
        cov["states"] = st
        cov["transitions"] = tr
        cov["traces_validated_against_impl"] = tv
    if post:
        cov["post_phase"] = post
    ev = dict(
        property_id=pid,
        tier=tier,
        seed=seed,
        level=level,
        coverage=cov,
        assumptions=list(getattr(mod, "ASSUMPTIONS", [])),
        wall_s=round(wall, 2),
        violations=len(new),
    )
    with open(os.path.join(EVIDENCE_DIR, pid + ".json"), "w") as f:
        json.dump(ev, f, indent=1, default=str)
    print("%s tier=%s evaluations=%d distinct_nontrivial=%d outcomes=%d states=%d transitions=%d wall=%.1fs" % (
        pid, tier, evaluations, cov["distinct_nontrivial"], len(outcomes), st, tr, wall))
    for k, v in fam.items():
        print("  family %-28s evaluations=%-8d nontrivial=%-8d cpu=%.1fs" % (k, v["evaluations"], v["nontrivial"], v["cpu_s"]))
    for ln in lines:
        print(ln)
    if rc == 0:
        print("%s: property held on everything explored (%d known finding(s) reported)" % (pid, len(known_hit)))
    return rc


def run_replay(pid, path, confirm=False, history=False):
    pid = pid.upper()
    mod = load_module(pid)
    with open(path) as f:
        rp = json.load(f)
    if hasattr(mod, "worker_init"):
        mod.worker_init(rp.get("tier", "quick"))
    if rp.get("case") is None:
        print("replay file has no case")
        return 2
    if (history or rp.get("history_dependent")) and rp.get("worker"):
        # re-execute, in this one process, every case the worker ran before the failing one
        wid, nw = rp["worker"]
        done = False
        for fam in mod.families(rp.get("tier", "quick")):
            name, gen = fam[0], fam[1]
            chunk = fam[2] if len(fam) > 2 else 1
            for idx, case in enumerate(gen()):
                if (idx // chunk) % nw != wid:
                    continue
                if name == rp["family"] and idx == rp["index"]:
                    done = True
                    break
                safe_run_case(mod, case)
            if done:
                break
    if rp["signature"].endswith(":loglevel=DEBUG"):
        with debug_logging():
            res = safe_run_case(mod, rp["case"])
        for v in res.get("violations") or []:
            v["signature"] += ":loglevel=DEBUG"
    else:
        res = safe_run_case(mod, rp["case"])
    sigs = [v["signature"] for v in res.get("violations") or []]
    if confirm:
        known_sigs = {k["signature"] for k in load_known() if k.get("property") == pid and k.get("status") == "known"}
        return 1 if rp["signature"] in sigs else (3 if any(x not in known_sigs for x in sigs) else 0)
    known_active = {k["signature"] for k in load_known() if k.get("property") == pid and k.get("status") == "known"}
    rc = 0
    for v in res.get("violations") or []:
        print(json.dumps(dict(signature=v["signature"], message=v.get("message"), observed=v.get("observed"), expected=v.get("expected")), indent=1, default=str))
        if v["signature"] in known_active:
            print("KNOWN-FINDING: property=%s signature=%s" % (pid, v["signature"]))
        else:
            print("VIOLATION property=%s replay=%s" % (pid, os.path.abspath(path)))
            rc = 1
    if not sigs:
        print("replay: no violation on this tree")
    return rc
