"""Corpus structures as abstract atom tables, read with the harness's own tokenizer / column reader (no rnapolis imports)."""
import functools
import gzip
import os

from mc import cif, enumio

TESTS = os.environ.get("RNAPOLIS_TESTS", "/repo/tests")
FILES = ["1HMH_1_E.cif", "6INQ.cif", "1DFU_1_M-N.cif", "4WTI_1_T-P.cif", "1E7K_1_C_modified.cif", "1E7K_1_C.cif", "184D.cif", "1A1T_1_B.cif",
         "4gqj-assembly1.cif", "6FC9.cif", "1JJP.cif", "1ehz-assembly-1.cif", "8btk_B7.cif", "4qln.cif", "1a9n.cif", "6g90_1.cif", "6RS3.cif", "2HY9.cif",
         "q-ugg-5k-salt_400-500ns_frame1065.pdb", "1ATO.pdb", "488d.pdb", "4qln.pdb", "1gid.cif.gz"]
SMALL = FILES[:11]


def read_text(name):
    path = os.path.join(TESTS, name)
    if name.endswith(".gz"):
        with gzip.open(path, "rt") as f:
            return f.read()
    with open(path) as f:
        return f.read()


@functools.lru_cache(maxsize=None)
def table(name, first_model_only=True):
    """Abstract atom table of a corpus file: list of atom dicts as in enumio (plus label ids and entity for mmCIF)."""
    text = read_text(name)
    if name.replace(".gz", "").endswith(".pdb"):
        atoms, problems, _ = enumio.read_pdb_layout(text)
        # real PDB files need not have 80-column lines; only decoding problems matter here
        t = atoms
    else:
        blocks = cif.parse(text)
        items, rows = blocks[0][1]["atom_site"]
        ix = {it: k for k, it in enumerate(items)}

        def g(row, it, default=None):
            if it not in ix:
                return default
            kind, v = row[ix[it]]
            return v if kind == "v" else default

        t = []
        for row in rows:
            ch = g(row, "pdbx_formal_charge")
            # identity: the author items where present; auth_comp_id and auth_atom_id are optional items of a file (8btk_B7.cif has neither) and are
            # then taken from the label items. (For a while this reader followed the library in falling back to the complete label triple for such
            # files; that hid a defect of the library - hetero groups without label_seq_id were dropped - see DESIGN.md 4.1.)
            use_auth = True
            t.append(dict(record=g(row, "group_PDB", "ATOM"), serial=int(g(row, "id")), name=g(row, "auth_atom_id") or g(row, "label_atom_id"),
                          altloc=g(row, "label_alt_id"), resname=(g(row, "auth_comp_id") if use_auth else None) or g(row, "label_comp_id"),
                          chain=(g(row, "auth_asym_id") if use_auth else None) or g(row, "label_asym_id"),
                          resseq=int((g(row, "auth_seq_id") if use_auth else None) or g(row, "label_seq_id")), icode=g(row, "pdbx_PDB_ins_code"), x=g(row, "Cartn_x"), y=g(row, "Cartn_y"),
                          z=g(row, "Cartn_z"), occ=g(row, "occupancy"), b=g(row, "B_iso_or_equiv", "0.00"), element=g(row, "type_symbol"),
                          charge=int(ch) if ch and ch.lstrip("-").isdigit() and int(ch) else None, model=int(g(row, "pdbx_PDB_model_num", "1")),
                          label_atom=g(row, "label_atom_id"), label_comp=g(row, "label_comp_id"), label_asym=g(row, "label_asym_id"),
                          label_seq=g(row, "label_seq_id"), entity=g(row, "label_entity_id")))
    if first_model_only and t:
        m = t[0]["model"]
        t = [a for a in t if a["model"] == m]
    return t


def residues(t):
    """Groups an abstract table into residues (consecutive atoms with the same identity): list of (identity, [atoms])."""
    out = []
    for a in t:
        ident = (a["model"], a["chain"], a["resseq"], a["icode"], a["resname"])
        if out and out[-1][0] == ident:
            out[-1][1].append(a)
        else:
            out.append((ident, [a]))
    return out


def single_conformer(t):
    """No alternate locations and no two atoms of a model closer than 0.5 A (partial-occupancy copies of a residue written as separate residues, as in
    488d.pdb, are alternate conformers in all but name: the residue-level reader keeps one of them by design - C08's clash rule)."""
    if has_altlocs(t):
        return False
    import numpy as np
    from scipy.spatial import cKDTree

    for m in sorted({a["model"] for a in t}):
        pts = np.array([[float(a["x"]), float(a["y"]), float(a["z"])] for a in t if a["model"] == m])
        if len(pts) > 1 and cKDTree(pts).query_pairs(0.5):
            return False
    return True


def has_altlocs(t):
    return any(a["altloc"] for a in t)


def pdb_expressible(t):
    return all(len(a["chain"]) == 1 and len(a["resname"]) <= 3 and len(a["name"]) <= 4 and -999 <= a["resseq"] <= 9999 and a["serial"] <= 99999
               and -999.999 <= float(a["x"]) <= 9999.999 and -999.999 <= float(a["y"]) <= 9999.999 and -999.999 <= float(a["z"]) <= 9999.999 for a in t)
