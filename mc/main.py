import argparse
import os
import sys


def main():
    ap = argparse.ArgumentParser()
    ap.add_argument("property")
    ap.add_argument("--tier", default=os.environ.get("VERIF_TIER", "quick"), choices=["quick", "thorough"])
    ap.add_argument("--replay")
    ap.add_argument("--confirm", action="store_true")
    ap.add_argument("--history", action="store_true")
    args = ap.parse_args()
    from mc import engine

    if args.replay:
        sys.exit(engine.run_replay(args.property, args.replay, args.confirm, args.history))
    seed = int(os.environ.get("VERIF_SEED", "0") or 0)
    sys.exit(engine.run_check(args.property, args.tier, seed))


if __name__ == "__main__":
    main()
