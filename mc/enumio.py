"""Abstract atom tables, deviation enumerator, independent PDB / mmCIF emitters and an independent PDB column reader.
Imports nothing from rnapolis."""
import copy
import itertools

from mc import cif

FIELDS = ["record", "serial", "name", "altloc", "resname", "chain", "resseq", "icode", "x", "y", "z", "occ", "b", "element", "charge", "model"]


def atom(serial, name, resname, chain, resseq, x, y, z, element=None, **kw):
    a = dict(record="ATOM", serial=serial, name=name, altloc=None, resname=resname, chain=chain, resseq=resseq, icode=None,
             x=x, y=y, z=z, occ="1.00", b="10.00", element=element or name[0], charge=None, model=1)
    a.update(kw)
    return a


def base_table():
    t = []
    k = 1
    spec = [
        ("A", 1, "G", ["P", "O5'", "N9"]),
        ("A", 2, "C", ["P", "C1'", "N1"]),
        ("B", 10, "U", ["P", "O3'", "N3"]),
        ("B", 11, "A", ["P", "C8", "N7"]),
    ]
    for chain, num, resn, names in spec:
        for j, nm in enumerate(names):
            t.append(atom(k, nm, resn, chain, num, "%.3f" % (1.5 * k + 0.123), "%.3f" % (-2.25 * k + 0.5), "%.3f" % (0.75 * k * (-1) ** k), element=nm[0]))
            k += 1
    return t


def dec(v, nd):
    return ("%." + str(nd) + "f") % float(v)


# ---------------------------------------------------------------------------------------------
# emitters

def pdb_line(a):
    name = a["name"]
    el = a["element"] or ""
    if len(name) < 4 and len(el) < 2:
        nf = (" " + name).ljust(4)
    else:
        nf = name.ljust(4)
    ch = ""
    if a["charge"]:
        ch = "%d%s" % (abs(a["charge"]), "+" if a["charge"] > 0 else "-")
    # columns 73-76: segment identifier (written by CHARMM / NAMD / X-PLOR; not one of the property's fields, never a chain identifier)
    line = "%-6s%5d %4s%1s%3s %1s%4d%1s   %8s%8s%8s%6s%6s      %-4s%2s%2s" % (
        a["record"], a["serial"], nf, a["altloc"] or "", a["resname"], a["chain"], a["resseq"], a["icode"] or "",
        dec(a["x"], 3), dec(a["y"], 3), dec(a["z"], 3), dec(a["occ"], 2) if a["occ"] is not None else "", dec(a["b"], 2), a.get("segid") or "", el, ch)
    assert len(line) == 80, (len(line), line)
    return line


def emit_pdb(table, model_records=None):
    models = []
    for a in table:
        if a["model"] not in models:
            models.append(a["model"])
    use_model = model_records if model_records is not None else len(models) > 1
    out = []
    for m in models:
        if use_model:
            out.append("MODEL     %4d" % m)
        last = None
        prev = None
        for a in table:
            if a["model"] != m:
                continue
            if last is not None and a["chain"] != last:
                out.append(("TER   %5d      %3s %1s%4d%1s" % ((prev["serial"] + 1) % 100000, prev["resname"], prev["chain"], prev["resseq"], prev["icode"] or "")).ljust(80))
            out.append(pdb_line(a))
            last = a["chain"]
            prev = a
        if prev is not None:
            out.append(("TER   %5d      %3s %1s%4d%1s" % ((prev["serial"] + 1) % 100000, prev["resname"], prev["chain"], prev["resseq"], prev["icode"] or "")).ljust(80))
        if use_model:
            out.append("ENDMDL")
    out.append("END")
    return "\n".join(out) + "\n"


CIF_ITEMS = ["group_PDB", "id", "type_symbol", "label_atom_id", "label_alt_id", "label_comp_id", "label_asym_id", "label_entity_id", "label_seq_id",
             "pdbx_PDB_ins_code", "Cartn_x", "Cartn_y", "Cartn_z", "occupancy", "B_iso_or_equiv", "pdbx_formal_charge", "auth_seq_id", "auth_comp_id",
             "auth_asym_id", "auth_atom_id", "pdbx_PDB_model_num"]


PDB_VARIANTS = ("short-lines", "no-element-columns", "crlf", "extra-records")
CIF_VARIANTS = ("columns-reversed", "all-quoted", "extra-items", "tabs-and-comments")


def pdb_variant(text, kind):
    """The same atoms in another legal presentation of the PDB text (what real files look like): trailing blanks stripped, lines ending after the
    B-factor, CRLF line ends, other record types in between."""
    lines = text.split("\n")
    if kind == "short-lines":
        return "\n".join(ln.rstrip() for ln in lines)
    if kind == "no-element-columns":
        return "\n".join(ln[:66].rstrip() if ln.startswith(("ATOM", "HETATM")) else ln.rstrip() for ln in lines)
    if kind == "crlf":
        return "\r\n".join(lines)
    if kind == "extra-records":
        out = ["HEADER    RNA                                     01-JAN-00   VERI", "REMARK   2 RESOLUTION.    1.90 ANGSTROMS.",
               "CRYST1   50.000   50.000   50.000  90.00  90.00  90.00 P 1           1"]
        first = True
        for ln in lines:
            out.append(ln)
            if ln.startswith("ATOM") and first:
                out.append("ANISOU" + ln[6:28] + "    1234   2345   3456    111    222    333" + ln[70:80])
                first = False
        while out and not out[-1].strip():
            out.pop()
        if out and out[-1].strip() == "END":
            out.pop()
        out += ["CONECT    1    2", "MASTER        0    0    0    0    0    0    0    0   12    0    0    0", "END"]
        return "\n".join(out) + "\n"
    raise KeyError(kind)


def cif_variant(text, kind):
    """The same atom_site loop in another legal presentation of the mmCIF text."""
    blocks = cif.parse(text)
    name, cats = blocks[0]
    items, rows = cats["atom_site"]
    if kind == "columns-reversed":
        cats["atom_site"] = (items[::-1], [tuple(r[::-1]) for r in rows])
        return cif.emit([(name, cats)], {"atom_site": "loop"})
    if kind == "extra-items":
        cats["atom_site"] = (["verif_note"] + items + ["pdbx_verif_flag"], [(("v", "n%d" % k),) + tuple(r) + (("n", "?"),) for k, r in enumerate(rows)])
        return cif.emit([(name, cats)], {"atom_site": "loop"})
    if kind == "all-quoted":
        out = []
        for ln in text.split("\n"):
            if ln.startswith(("ATOM", "HETATM")):
                ln = " ".join(tok if tok in ("?", ".") or "'" in tok or '"' in tok else "'%s'" % tok for tok in ln.split())
            out.append(ln)
        return "\n".join(out)
    if kind == "tabs-and-comments":
        out = []
        for ln in text.split("\n"):
            if ln.startswith(("ATOM", "HETATM")):
                ln = "\t".join(ln.split()) + "   "
            elif ln.startswith("loop_"):
                ln = "# atom records follow\nloop_"
            out.append(ln)
        return "\n".join(out)
    raise KeyError(kind)


def emit_cif(table, null_icode="?", null_alt=".", null_occ="?", label_differs=False, extra_categories=None, label_seq_null=None, omit_items=()):
    """label_differs: label_asym_id / label_seq_id carry other values than the auth ids (as in real files)."""
    rows = []
    lab_asym = {}
    lab_seq = {}
    for a in table:
        key = (a["model"], a["chain"])
        if label_differs:
            if a["chain"] not in lab_asym:
                lab_asym[a["chain"]] = "L%s" % chr(ord("A") + len(lab_asym))
            rk = (a["chain"], a["resseq"], a["icode"])
            if rk not in lab_seq:
                lab_seq[rk] = len([1 for k in lab_seq if k[0] == a["chain"]]) + 1
        la = lab_asym[a["chain"]] if label_differs else (a["chain"] if a["chain"] is not None else "Q")
        ls = str(lab_seq[(a["chain"], a["resseq"], a["icode"])]) if label_differs else str(a["resseq"])
        V = lambda s: ("v", str(s))
        N = lambda m: ("n", m)
        seqv = V(ls)
        if a["record"] == "HETATM" and label_seq_null:
            seqv = N(label_seq_null)
        rows.append((
            V(a["record"]), V(a["serial"]), V(a["element"]) if a["element"] else N("?"), V(a["name"]),
            V(a["altloc"]) if a["altloc"] else N(null_alt), V(a["resname"]), V(la), V("1"), seqv,
            V(a["icode"]) if a["icode"] else N(null_icode), V(dec(a["x"], 3)), V(dec(a["y"], 3)), V(dec(a["z"], 3)),
            V(dec(a["occ"], 2)) if a["occ"] is not None else N(null_occ), V(dec(a["b"], 2)),
            V(a["charge"]) if a["charge"] else N("?"), V(a["resseq"]), V(a["resname"]), V(a["chain"]) if a["chain"] is not None else N("?"), V(a["name"]), V(a["model"]),
        ))
    cats = {"entry": (["id"], [(("v", "VERIF"),)])}
    if extra_categories:
        cats.update(extra_categories)
    items = list(CIF_ITEMS)
    if omit_items:
        # optional items a file need not carry (auth_atom_id, auth_comp_id, ...)
        keep = [k for k, it in enumerate(items) if it not in omit_items]
        items = [items[k] for k in keep]
        rows = [tuple(r[k] for k in keep) for r in rows]
    cats["atom_site"] = (items, rows)
    return cif.emit([("VERIF", cats)], {"atom_site": "loop"})


# ---------------------------------------------------------------------------------------------
# independent PDB column reader (layout oracle)

def read_pdb_layout(text):
    """Returns (atoms, problems, structure) from written PDB text; atoms in the canonical view."""
    problems = []
    atoms = []
    model = None
    events = []  # ('MODEL', n) ('ATOM', chain) ('TER', chain) ('ENDMDL',)
    for ln, line in enumerate(text.split("\n")):
        if not line:
            continue
        rec = line[:6].strip()
        if rec in ("ATOM", "HETATM", "TER"):
            if len(line) != 80:
                problems.append("line %d: %s record is %d columns, not 80" % (ln + 1, rec, len(line)))
        if rec == "MODEL":
            try:
                model = int(line[10:14])
            except ValueError:
                problems.append("line %d: MODEL number not in columns 11-14" % (ln + 1))
            events.append(("MODEL", model))
        elif rec == "ENDMDL":
            events.append(("ENDMDL",))
            model = None
        elif rec == "TER":
            events.append(("TER", line[21:22].strip()))
            num = line[22:26]
            if num.strip() and (num != num.strip().rjust(4) or not num.strip().lstrip("-").isdigit()):
                problems.append("line %d: TER residue number %r is not right-justified in columns 23-26" % (ln + 1, num))
        elif rec in ("ATOM", "HETATM"):
            try:
                if line[11] != " " or line[20] != " " or line[27:30] != "   " or line[66:76] != " " * 10:
                    problems.append("line %d: separator columns not blank" % (ln + 1))
                ch = line[78:80].strip()
                charge = None
                if ch:
                    if len(ch) == 2 and ch[0].isdigit() and ch[1] in "+-":
                        charge = int(ch[0]) * (1 if ch[1] == "+" else -1)
                    else:
                        problems.append("line %d: charge %r not of the form <digit><sign>" % (ln + 1, ch))
                a = dict(record=rec, serial=int(line[6:11]), name=line[12:16].strip(), altloc=line[16].strip() or None, resname=line[17:20].strip(),
                         chain=line[21].strip(), resseq=int(line[22:26]), icode=line[26].strip() or None, x=dec(line[30:38], 3), y=dec(line[38:46], 3),
                         z=dec(line[46:54], 3), occ=dec(line[54:60], 2), b=dec(line[60:66], 2), element=line[76:78].strip() or None, charge=charge,
                         model=model if model is not None else 1)
                for fld in ("x", "y", "z"):
                    s = {"x": line[30:38], "y": line[38:46], "z": line[46:54]}[fld]
                    if "." not in s or len(s.strip().split(".")[1]) != 3:
                        problems.append("line %d: coordinate %r not %%8.3f" % (ln + 1, s))
                atoms.append(a)
                events.append(("ATOM", a["chain"]))
            except (ValueError, IndexError) as e:
                problems.append("line %d: fixed-column decoding failed: %s" % (ln + 1, e))
    return atoms, problems, events


def check_pdb_structure(events):
    """MODEL/ENDMDL around every model and a TER after the last atom of every chain of every model."""
    problems = []
    in_model = False
    last_chain = None
    pending = False  # atoms written since the last TER
    for ev in events:
        if ev[0] == "MODEL":
            if in_model:
                problems.append("MODEL inside a model")
            if pending:
                problems.append("atoms of chain %r not closed by TER before MODEL" % last_chain)
            in_model = True
            last_chain = None
            pending = False
        elif ev[0] == "ENDMDL":
            if not in_model:
                problems.append("ENDMDL without MODEL")
            if pending:
                problems.append("missing TER after the last chain (%r) of a model" % last_chain)
            in_model = False
            pending = False
            last_chain = None
        elif ev[0] == "ATOM":
            if not in_model:
                problems.append("atom outside MODEL/ENDMDL")
                in_model = None  # report once
            if pending and ev[1] != last_chain:
                problems.append("missing TER between chains %r and %r" % (last_chain, ev[1]))
            last_chain = ev[1]
            pending = True
        elif ev[0] == "TER":
            if not pending:
                problems.append("TER without preceding atoms")
            elif ev[1] != last_chain:
                problems.append("TER names chain %r after atoms of chain %r" % (ev[1], last_chain))
            pending = False
    if pending:
        problems.append("missing TER after the last chain (%r)" % last_chain)
    if in_model:
        problems.append("missing final ENDMDL")
    return problems


def view(a):
    return tuple(a[f] if f not in ("x", "y", "z", "occ", "b") else (dec(a[f], 3 if f in "xyz" else 2) if a[f] is not None else None) for f in FIELDS)


def table_view(table):
    return [view(a) for a in table]


def apply_deviations(devs):
    t = base_table()
    for d in devs:
        if d(t) is False:
            return None
    # renumber nothing: deviations keep serials unique themselves
    return t


def combos(devs, dmax):
    yield ()
    for d in range(1, dmax + 1):
        for c in itertools.combinations(range(len(devs)), d):
            yield c
