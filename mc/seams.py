"""Seams through which the explorer owns the environment of rnapolis code (no source hooks needed)."""
import contextlib

import pulp

BEHAVIOURS = ["ok", "raise", "not_solved", "infeasible", "unbounded", "undefined"]
STATUS = dict(not_solved=pulp.LpStatusNotSolved, infeasible=pulp.LpStatusInfeasible, unbounded=pulp.LpStatusUnbounded, undefined=pulp.LpStatusUndefined)


class FaultSolver(pulp.LpSolver):
    """A solver whose successive answers are scripted by the explorer. script: list of behaviours, the last one repeats."""

    name = "FaultSolver"

    def __init__(self, script, garbage=True):
        super().__init__(msg=False)
        self.script = list(script)
        self.calls = 0
        self.garbage = garbage

    def available(self):
        return True

    def actualSolve(self, lp, **kw):
        beh = self.script[min(self.calls, len(self.script) - 1)]
        self.calls += 1
        if beh == "ok":
            return pulp.PULP_CBC_CMD(msg=False).actualSolve(lp)
        if beh == "raise":
            raise pulp.PulpSolverError("injected solver failure")
        if beh in ("claims-optimal-zeros", "claims-optimal-level0"):
            # a back-end that reports success without a solution behind it (what the bundled CBC does when it stops on an iteration limit of 0):
            # every variable 0, or every region on level 0 - neither is a proper assignment of a knotted structure
            for v in lp.variables():
                v.varValue = (1 if v.name.endswith("_0") else 0) if beh.endswith("level0") else 0
            lp.assignStatus(pulp.LpStatusOptimal)
            return pulp.LpStatusOptimal
        if self.garbage == "proper":
            # a solver that stopped early with a PROPER but arbitrary assignment behind it (an incumbent): conflicts are read off the two-variable
            # constraints x_i_o + x_j_o <= 1, regions are coloured greedily from the LAST one backwards (first-come-first-served goes forwards)
            import collections
            import re

            nb = collections.defaultdict(set)
            regions, levels = set(), set()
            for v in lp.variables():
                m = re.fullmatch(r"x_(\d+)_(\d+)", v.name)
                if m:
                    regions.add(int(m.group(1)))
                    levels.add(int(m.group(2)))
            for c in lp.constraints.values():
                vs = [re.fullmatch(r"x_(\d+)_(\d+)", v.name) for v in c.keys()]
                if len(vs) == 2 and all(vs) and vs[0].group(2) == vs[1].group(2):
                    a, b = int(vs[0].group(1)), int(vs[1].group(1))
                    nb[a].add(b)
                    nb[b].add(a)
            colour = {}
            for r in sorted(regions, reverse=True):
                colour[r] = next(l for l in sorted(levels) if all(colour.get(x) != l for x in nb[r]))
            for v in lp.variables():
                m = re.fullmatch(r"x_(\d+)_(\d+)", v.name)
                if m:
                    v.varValue = 1 if colour[int(m.group(1))] == int(m.group(2)) else 0
            lp.assignStatus(STATUS[beh])
            return STATUS[beh]
        if self.garbage:
            # a solver that stopped early may leave arbitrary values behind: put every region on level 0
            for v in lp.variables():
                v.varValue = 1 if v.name.endswith("_0") else 0
        lp.assignStatus(STATUS[beh])
        return STATUS[beh]


class AbsentBinary(pulp.LpSolver):
    """HiGHS_CMD as it is in this image: the class exists, the executable does not."""

    name = "HiGHS_CMD"

    def __init__(self, *a, **k):
        super().__init__(msg=False)

    def available(self):
        return True

    def actualSolve(self, lp, **kw):
        raise pulp.PulpSolverError("PuLP: cannot execute highs")


@contextlib.contextmanager
def solver_environment(highs_available, highs_factory, default_solver):
    """Rebinds pulp.HiGHS_CMD and pulp.LpSolverDefault for the duration of one execution."""
    old_h, old_d = pulp.HiGHS_CMD, pulp.LpSolverDefault

    class _Highs:
        def __new__(cls, *a, **k):
            if highs_factory is not None and highs_available:
                return highs_factory()
            return _Unavailable()

    class _Unavailable:
        msg = False

        def available(self):
            return False

    pulp.HiGHS_CMD = _Highs
    pulp.LpSolverDefault = default_solver
    try:
        yield
    finally:
        pulp.HiGHS_CMD = old_h
        pulp.LpSolverDefault = old_d


# ------------------------------------------------------------------------------------------------
# controlled set iteration (C14)

class Schedule:
    """Deviation-bounded choice of iteration orders. plan: {choice_point_index: alternative_index}."""

    def __init__(self):
        self.plan = {}
        self.points = []  # number of alternatives seen at each choice point of the current execution
        self.active = False

    def start(self, plan):
        self.plan = dict(plan)
        self.points = []
        self.active = True

    def stop(self):
        self.active = False

    def choose(self, items):
        n = len(items)
        alts = alternatives(n)
        k = len(self.points)
        self.points.append(len(alts))
        a = self.plan.get(k, 0)
        if a >= len(alts):
            raise RuntimeError("schedule diverged: choice point %d has %d alternatives, plan wants %d" % (k, len(alts), a))
        return [items[i] for i in alts[a]]


_ALT_CACHE = {}


def alternatives(n):
    """Orders offered at a choice point over n items (as index permutations); alternative 0 = insertion order.
    n <= 4: all permutations; larger: reversal, every adjacent transposition, every move-to-front."""
    if n in _ALT_CACHE:
        return _ALT_CACHE[n]
    import itertools

    ident = tuple(range(n))
    if n <= 4:
        alts = [ident] + [p for p in itertools.permutations(range(n)) if p != ident]
    else:
        alts = [ident, tuple(reversed(ident))]
        for i in range(n - 1):
            p = list(ident)
            p[i], p[i + 1] = p[i + 1], p[i]
            alts.append(tuple(p))
        for i in range(2, n):
            alts.append((i,) + tuple(j for j in ident if j != i))
        seen = set()
        alts = [a for a in alts if not (a in seen or seen.add(a))]
    _ALT_CACHE[n] = alts
    return alts


SCHEDULE = Schedule()


def _seed_dependent(x):
    if isinstance(x, (int, float, bool)) or x is None:
        return False
    if isinstance(x, (tuple, frozenset)):
        return any(_seed_dependent(y) for y in x)
    return True  # str, Enum, dataclass instances, objects


class ChoiceSet(set):
    """set whose iteration order over seed-dependent elements is chosen by the explorer (insertion order by default)."""

    def __init__(self, iterable=()):
        super().__init__()
        self._order = []
        for x in iterable:
            self.add(x)

    def add(self, x):
        if x not in self:
            self._order.append(x)
        super().add(x)

    def update(self, *others):
        for o in others:
            for x in o:
                self.add(x)

    def remove(self, x):
        super().remove(x)
        self._order.remove(x)

    def discard(self, x):
        if x in self:
            self.remove(x)

    def pop(self):
        x = self._order.pop()
        super().remove(x)
        return x

    def clear(self):
        super().clear()
        self._order = []

    def __iter__(self):
        if not SCHEDULE.active or len(self._order) < 2 or not any(_seed_dependent(x) for x in self._order):
            if any(_seed_dependent(x) for x in self._order):
                return iter(list(self._order))
            return super().__iter__()
        return iter(SCHEDULE.choose(list(self._order)))

    def copy(self):
        return ChoiceSet(self._order)

    def __reduce__(self):
        return (ChoiceSet, (list(self._order),))


# ------------------------------------------------------------------------------------------------
# controlled KD-tree pair order (C03 / C11 schedules)

class PairOrder:
    """Explorer-chosen processing order of the hydrogen-bond candidate pairs."""

    def __init__(self):
        self.fn = None  # callable(list_of_pairs, coordinates) -> list_of_pairs
        self.last = None

    def order(self, pairs, data, r):
        natural = list(pairs)
        self.last = (natural, data, r)
        if self.fn is None or r > 5.0:
            return natural
        out = self.fn(natural, data)
        assert sorted(out) == sorted(natural), "schedule must be a permutation"
        return out


PAIR_ORDER = PairOrder()


class PairList(list):
    """Marker: a pair list whose order was chosen by the explorer."""


def scheduled_sorted(iterable, *a, **k):
    """Stand-in for `sorted` inside rnapolis.annotator: a PairList under an active schedule keeps the explorer's order."""
    import builtins

    if isinstance(iterable, PairList) and PAIR_ORDER.fn is not None and not a and not k:
        return list(iterable)
    return builtins.sorted(iterable, *a, **k)


def install_pair_order_seam(annotator_module):
    """Returns True if the seam could be installed (module still uses a module-level KDTree name)."""
    if not hasattr(annotator_module, "KDTree"):
        return False
    annotator_module.KDTree = make_scheduled_kdtree()
    annotator_module.sorted = scheduled_sorted
    return True


def make_scheduled_kdtree():
    from builtins import sorted as builtins_sorted

    from scipy.spatial import KDTree as RealKDTree

    class ScheduledKDTree(RealKDTree):
        """A real KD-tree (a subclass, so that it can be handed to any other scipy call, e.g. tree.sparse_distance_matrix(tree, r)) whose query_pairs
        answers the same pair set in an order the explorer chooses."""

        def __init__(self, data, *a, **k):
            super().__init__(data, *a, **k)
            self._data = data

        def query_pairs(self, r, *a, **k):
            res = super().query_pairs(r, *a, **k)
            if k.get("output_type", "set") != "set" or not isinstance(res, (set, frozenset)):
                return res  # another output type was asked for: answered by the real tree as it is
            return PairList(PAIR_ORDER.order(builtins_sorted(res), self._data, r))

    return ScheduledKDTree
