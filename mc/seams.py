"""Seams through which the explorer owns the environment of rnapolis code (no source hooks needed)."""
import contextlib

import pulp

BEHAVIOURS = ["ok", "raise", "not_solved", "infeasible", "unbounded", "undefined"]
STATUS = dict(not_solved=pulp.LpStatusNotSolved, infeasible=pulp.LpStatusInfeasible, unbounded=pulp.LpStatusUnbounded, undefined=pulp.LpStatusUndefined)


class FaultSolver(pulp.LpSolver):
    """A solver whose successive answers are scripted by the explorer. script: list of behaviours, the last one repeats."""

    name = "FaultSolver"

    def __init__(self, script, garbage=True):
        super().__init__(msg=False)
        self.script = list(script)
        self.calls = 0
        self.garbage = garbage

    def available(self):
        return True

    def actualSolve(self, lp, **kw):
        beh = self.script[min(self.calls, len(self.script) - 1)]
        self.calls += 1
        if beh == "ok":
            return pulp.PULP_CBC_CMD(msg=False).actualSolve(lp)
        if beh == "raise":
            raise pulp.PulpSolverError("injected solver failure")
        if self.garbage:
            # a solver that stopped early may leave arbitrary values behind: put every region on level 0
            for v in lp.variables():
                v.varValue = 1 if v.name.endswith("_0") else 0
        lp.assignStatus(STATUS[beh])
        return STATUS[beh]


class AbsentBinary(pulp.LpSolver):
    """HiGHS_CMD as it is in this image: the class exists, the executable does not."""

    name = "HiGHS_CMD"

    def __init__(self, *a, **k):
        super().__init__(msg=False)

    def available(self):
        return True

    def actualSolve(self, lp, **kw):
        raise pulp.PulpSolverError("PuLP: cannot execute highs")


@contextlib.contextmanager
def solver_environment(highs_available, highs_factory, default_solver):
    """Rebinds pulp.HiGHS_CMD and pulp.LpSolverDefault for the duration of one execution."""
    old_h, old_d = pulp.HiGHS_CMD, pulp.LpSolverDefault

    class _Highs:
        def __new__(cls, *a, **k):
            if highs_factory is not None and highs_available:
                return highs_factory()
            return _Unavailable()

    class _Unavailable:
        msg = False

        def available(self):
            return False

    pulp.HiGHS_CMD = _Highs
    pulp.LpSolverDefault = default_solver
    try:
        yield
    finally:
        pulp.HiGHS_CMD = old_h
        pulp.LpSolverDefault = old_d
