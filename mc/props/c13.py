"""C13 - dot-bracket generation survives every solver configuration and fault (form E)."""
import itertools

from mc import enum2d, seams
from mc.engine import observe
from mc.props.common2d import build, info, seq_of, viol
from mc.ref import ref2d

ID = "C13"
LEVEL = "model_checking"
RULE = (
    "environment-answer exploration: for each structure, every solver configuration (HiGHS available with {absent binary, 6 scripted "
    "behaviours}; HiGHS unavailable with LpSolverDefault in {None, 6 behaviours}; explicit solver argument in {None, 6 behaviours}) "
    "and every fault sequence of length <= L over {ok, raises PulpSolverError, NotSolved, Infeasible, Unbounded, Undefined} on repeated "
    "conversions of the same object is executed on the real code; a state is (configuration, position in the fault script), a transition "
    "one conversion call; every result must be a lossless encoding, equal to FCFS whenever the solver did not deliver an optimum, optimal "
    "otherwise, never raise, and leave the object unchanged. Each execution is replayed once and must reproduce. "
    "non-trivial = the injected solver was really called (knotted structure); distinct = (structure, configuration/script)."
)
ASSUMPTIONS = [
    "a non-optimal status may leave arbitrary variable values behind (the fault solver writes an improper all-level-0 assignment)",
    "HiGHS is not installed here; its working variant delegates to CBC",
]
_tier = ["quick"]


def worker_init(tier):
    _tier[0] = tier


def BOUNDS(tier):
    q = tier == "quick"
    return dict(inputs="knotted members of M(N<=%d) and D(K<=%d); unknotted members of M(N<=5) once per configuration" % ((8, 3) if q else (10, 4)),
                configurations=49, fault_sequences="all sequences of length <= %d over 6 behaviours + None on one object" % (2 if q else 3))


def _knotted(gen, want=True):
    for c in gen:
        _, _, knotted, _ = info(c)
        if knotted == want:
            yield c


def families(tier):
    q = tier == "quick"
    return [
        ("M-knotted", lambda: _knotted(enum2d.M(8 if q else 10)), 1),
        ("D-knotted", lambda: _knotted(enum2d.D(3 if q else 4)), 1),
        ("M-unknotted", lambda: _knotted(enum2d.M(5), False), 1),
        ("M-exotic-letters", lambda: (enum2d.exotic(c) for c in enum2d.M(6, nmin=3)), 1),
        # more than ten stems (two-digit region numbers in the MILP's variable names): hairpins around a small knot
        ("many-stems", lambda: (c for k, c in enumerate(__import__("mc.props.c02", fromlist=["x"])._many_stems(tier)) if k % 3 == 0 and c["n"] <= 150), 1),
    ]


def configurations():
    B = seams.BEHAVIOURS
    for beh in B:
        yield ("arg", beh)
    yield ("arg", "none")
    for beh in B:
        yield ("highs", beh)
    yield ("highs", "absent-binary")
    for beh in B:
        yield ("default", beh)
    yield ("default", "none")
    # a solver that claims an optimum it does not have (status Optimal, no proper assignment behind it): it cannot deliver an optimal solution, so FCFS
    for kind in ("arg", "highs", "default"):
        for beh in ("claims-optimal-zeros", "claims-optimal-level0"):
            yield (kind, beh)
    # the bundled CBC stopped by an iteration limit of 0 (a real back-end, not a stand-in)
    yield ("arg", "cbc-maxit0")
    # a solver that stops without an optimum and leaves a proper, arbitrary assignment behind (an incumbent that is not the first-come-first-served one)
    for kind in ("arg", "highs", "default"):
        for beh in ("not_solved", "infeasible", "undefined", "unbounded"):
            yield (kind, beh + "-proper")
    # a solver that stops without an optimum and leaves every variable unassigned (value None, objective None) - what HiGHS_CMD does when it returns early
    for kind in ("arg", "highs", "default"):
        for beh in ("not_solved", "infeasible", "undefined"):
            yield (kind, beh + "-unassigned")


def execute(case, conf):
    """One execution; returns (result-or-exc, solver_calls)."""
    kind, beh = conf
    b = build(case)
    solver = seams.FaultSolver([beh]) if (beh in seams.BEHAVIOURS or beh.startswith("claims-optimal")) else (seams.FaultSolver([beh.split("-")[0]], garbage=False) if beh.endswith("-unassigned") else (seams.FaultSolver([beh.split("-")[0]], garbage="proper") if beh.endswith("-proper") else None))
    if beh == "cbc-maxit0":
        import pulp

        r = observe(b.convert_to_dot_bracket, pulp.PULP_CBC_CMD(msg=False, options=["maxIt 0"]))
        return b, r, 1
    if kind == "arg":
        r = observe(b.convert_to_dot_bracket, solver)
    elif kind == "highs":
        fac = (lambda: solver) if solver is not None else (lambda: seams.AbsentBinary())
        with seams.solver_environment(True, fac, None):
            r = observe(lambda: b.dot_bracket)
    else:
        with seams.solver_environment(False, None, solver):
            r = observe(lambda: b.dot_bracket)
    return b, r, (solver.calls if solver is not None else 0)


def judge(case, seq, stems, graph, fc, opt, beh_effective, r, tag, out, b, suffix=""):
    n0 = len(out)
    res = _judge(case, seq, stems, graph, fc, opt, beh_effective, r, tag, out, b)
    for v in out[n0:]:
        v["signature"] += suffix
    return res


def _judge(case, seq, stems, graph, fc, opt, beh_effective, r, tag, out, b):
    if r[0] == "exc":
        out.append(viol("raises:%s:%s" % (beh_effective, r[1]), "%s: conversion raised %s" % (tag, r[2]), r[2], "a dot-bracket"))
        return "exc"
    d = r[1]
    probs = ref2d.check_encoding(case["n"], seq, case["pairs"], d.sequence, d.structure)
    if probs:
        out.append(viol("corrupt:%s" % beh_effective, "%s: result is not a lossless encoding: %s" % (tag, "; ".join(probs)[:200]), d.structure, None))
        return "corrupt"
    if beh_effective == "real-cbc-stopped":
        # a real back-end under an iteration limit: it may or may not reach the optimum; the answer is the optimal notation or the FCFS one
        dec = ref2d.decode(d.structure)[0]
        lev = ref2d.stem_levels(stems, dec)
        if d.structure != fc and (None in lev or ref2d.objective(stems, lev) != opt):
            out.append(viol("stopped-solver:neither-optimal-nor-fcfs", "%s: the notation is neither optimal nor the FCFS one" % tag, d.structure, fc))
    elif beh_effective != "ok":
        if d.structure != fc:
            out.append(viol("not-fcfs:%s" % beh_effective, "%s: solver did not deliver an optimum but the result is not the FCFS encoding" % tag, d.structure, fc))
    else:
        dec = ref2d.decode(d.structure)[0]
        lev = ref2d.stem_levels(stems, dec)
        if None in lev or ref2d.objective(stems, lev) != opt:
            out.append(viol("ok-not-optimal", "%s: solver answered normally but the notation is not optimal" % tag, d.structure, opt))
    if str(b) != enum2d.bpseq_text(case):
        out.append(viol("receiver-changed", "%s: object changed by the conversion" % tag, str(b), None))
    return d.structure


def run_case(case):
    out = []
    seq = seq_of(case)
    stems, graph, knotted, _ = info(case)
    fcl = ref2d.fcfs_levels(stems, graph)
    fr = observe(lambda: build(case).fcfs)
    if fr[0] == "exc":
        return dict(nontrivial=True, outcome="fcfs-exc", violations=[viol("fcfs:" + fr[1], "fcfs raised " + fr[2])])
    fc = fr[1].structure
    # the library's first-come-first-served notation is the yardstick of every fallback below: it is itself compared with the reference assignment
    # (every stem, in 5'->3' order, on the lowest level not taken by an earlier stem that crosses it)
    fdec, fprobs = ref2d.decode(fc)
    flev = ref2d.stem_levels(stems, fdec) if not fprobs else None
    pre = []
    if fprobs or flev is None or None in flev or list(flev) != list(fcl):
        pre.append(viol("fcfs:not-first-come-first-served", "BpSeq.fcfs gives %s, the first-come-first-served assignment of the stems %s is %s" % (fc, stems, list(fcl)), fc, list(fcl)))
    opt = ref2d.optimum(stems, graph)
    states = transitions = traces = called = 0
    seen_out = set()
    out.extend(pre)
    for conf in configurations():
        kind, beh = conf
        eff = beh if beh in seams.BEHAVIOURS else ("raise" if beh == "absent-binary" else (beh.split("-")[0] if beh.endswith(("-unassigned", "-proper")) else ("claims-optimal" if beh.startswith("claims-optimal") else ("real-cbc-stopped" if beh == "cbc-maxit0" else "none"))))
        if not knotted:
            eff_j = "ok" if eff in seams.BEHAVIOURS else eff  # solver is not needed: any behaviour must give the round-bracket answer
        b, r, calls = execute(case, conf)
        tag = "%s/%s" % conf
        if not knotted:
            # nothing crosses: the optimal answer and fcfs coincide, whatever the solver would do
            res = judge(case, seq, stems, graph, fc, opt, "none", r, tag, out, b)
        else:
            res = judge(case, seq, stems, graph, fc, opt, eff, r, tag, out, b)
        called += 1 if calls else 0
        # replay once: identical observation required
        b2, r2, calls2 = execute(case, conf)
        same = (r[0] == r2[0]) and (r[0] == "exc" and r[1] == r2[1] or r[0] == "ok" and r[1].structure == r2[1].structure) and calls == calls2
        if not same:
            # The same choice sequence on a fresh object gave another observation. The harness owns every choice (solver, availability, outcome) and CBC
            # is deterministic, so the difference comes from state the library kept between the two executions; the second answer is judged as well.
            judge(case, seq, stems, graph, fc, opt, "none" if not knotted else eff, r2, tag + " (second execution)", out, b2)
            out.append(viol("replay-diverges:%s" % eff, "%s: the same configuration executed twice on fresh objects gave different observations (%s vs %s)"
                            % (tag, r[1].structure if r[0] == "ok" else r[1], r2[1].structure if r2[0] == "ok" else r2[1]), None, None))
        states += 1
        transitions += 1
        traces += 1
        seen_out.add(res)
    # fault sequences on one object through the explicit-solver path (the call is not cached, so every call consults the solver)
    if knotted:
        L = 2 if (_tier[0] == "quick" or case["n"] > 9) else 3  # length-3 scripts on the larger structures alone cost three quarters of an hour
        alphabet = seams.BEHAVIOURS + ["none"]
        for n in range(2, L + 1):
            for script in itertools.product(alphabet, repeat=n):
                b = build(case)
                for pos, beh in enumerate(script):
                    solver = seams.FaultSolver([beh]) if beh != "none" else None
                    r = observe(b.convert_to_dot_bracket, solver)
                    judge(case, seq, stems, graph, fc, opt, beh, r, "script %s step %d" % ("/".join(script), pos), out, b)
                    transitions += 1
                # afterwards the object is asked for 'the' notation with the real back-end of this image: an explicit conversion that fell back (or did
                # not) must not have left anything behind that changes this answer - it is the optimal notation, as on a fresh object
                r = observe(lambda: b.dot_bracket)
                judge(case, seq, stems, graph, fc, opt, "ok", r, "dot_bracket after script %s" % "/".join(script), out, b, suffix=":after-explicit-conversions")
                transitions += 1
                states += 1
                traces += 1
    # de-duplicate violations by signature
    uniq = {}
    for v in out:
        uniq.setdefault(v["signature"], v)
    return dict(nontrivial=knotted and called > 0, outcome="knotted outs=%d" % len(seen_out) if knotted else "unknotted", violations=list(uniq.values()),
                states=states, transitions=transitions, traces=traces, extra=dict(executions_with_solver_called=called))
