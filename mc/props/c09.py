"""C09 - PDB/mmCIF write-read round trips preserve every atom field (form T: transition-system closure)."""
import collections
import math

from mc import enumio
from mc.engine import observe
from mc.props.common2d import viol

ID = "C09"
LEVEL = "model_checking"
RULE = (
    "transition-system closure on the real functions: a state is an atom table (pandas frame in PDB or mmCIF schema) canonicalised to the "
    "'PDB view' (record, serial, name, altloc, resName, chain, resSeq, iCode, x/y/z to 0.001, occupancy/B to 0.01, element, signed charge, "
    "model); transitions are parse_pdb_atoms.write_pdb and parse_cif_atoms.write_cif applied to either schema (so PDB->PDB, mmCIF->mmCIF, both "
    "cross paths and longer chains); breadth-first to depth D from every start table; invariant in every reached state: view == the abstract "
    "start table. Start tables: base table (2 chains x 2 residues x 3 atoms) with every combination of <= d field deviations, emitted as PDB "
    "and as mmCIF by an independent emitter. Every written PDB text is also read by an independent column reader (80 columns, fields in their "
    "columns, MODEL/ENDMDL around every model, TER after every chain). splitter.main is run in-process on every d<=1 table (with and without a second model) for input format x output format {keep, PDB, mmCIF}: one file per model that reads back as exactly that model. non-trivial = table with at least one deviation; distinct = (table, start format)."
)
ASSUMPTIONS = [
    "coordinates are 3-decimal values, occupancy/B 2-decimal values within PDB field widths",
    "atom-name alignment inside columns 13-16 is not prescribed (the stripped field must equal the name)",
]
_tier = ["quick"]


def worker_init(tier):
    _tier[0] = tier


def _set(idx, field, value, label=None):
    def f(t):
        t[idx][field] = value
    f.__name__ = label or "atom%d.%s=%r" % (idx, field, value)
    return f


def _name_el(idx, name, el):
    def f(t):
        t[idx]["name"] = name
        t[idx]["element"] = el
    f.__name__ = "atom%d.name=%r/%s" % (idx, name, el)
    return f


def _res(first, n, field, value):
    def f(t):
        for k in range(first, first + n):
            t[k][field] = value
    f.__name__ = "residue@%d.%s=%r" % (first, field, value)
    return f


def _second_model(t):
    n = len(t)
    for k in range(n):
        a = dict(t[k])
        a["model"] = 2
        a["serial"] = a["serial"] + n
        a["x"] = "%.3f" % (float(a["x"]) + 0.5)
        t.append(a)


def _model_numbers(m1, m2):
    """Two models with the given numbers (the MODEL serial field is four columns wide: 9999 is the largest; models need not start at 1)."""
    def f(t):
        if any(a["model"] != 1 for a in t):
            return False
        n = len(t)
        for a in t:
            a["model"] = m1
        for k in range(n):
            a = dict(t[k])
            a["model"] = m2
            a["serial"] = a["serial"] + n
            a["x"] = "%.3f" % (float(a["x"]) + 0.5)
            t.append(a)
    f.__name__ = "models=%d,%d" % (m1, m2)
    return f


def _altloc_pair(t):
    # atom 1 gets alternate locations A/B (two records)
    a = t[1]
    a["altloc"] = "A"
    a["occ"] = "0.60"
    b = dict(a)
    b["altloc"] = "B"
    b["occ"] = "0.40"
    b["x"] = "%.3f" % (float(a["x"]) + 0.3)
    t.insert(2, b)
    for k, at in enumerate(t):
        at["serial"] = k + 1


def _one_chain(t):
    """All residues in one chain (the common NMR layout once a second model is added: every model consists of the same single chain)."""
    for a in t:
        a["chain"] = "A"


def _sodium(t):
    """Residue B 11 becomes a sodium ion: component, atom and element all spelled NA."""
    for k in (9, 10, 11):
        t[k]["resname"] = "NA"
        t[k]["record"] = "HETATM"
    t[9]["name"], t[9]["element"] = "NA", "NA"


def _segid(t):
    """A segment identifier in columns 73-76 of every record (PDB text only; it is not a chain identifier and no field of the property)."""
    for a in t:
        a["segid"] = "RNA" + a["chain"].strip()[:1]


def _serial_offset(off):
    def f(t):
        for a in t:
            a["serial"] += off
    f.__name__ = "serial+%d" % off
    return f


def deviations():
    d = []
    for nm, el in (("H5''", "H"), ("1H5'", "H"), ("FE", "FE"), ("C", "C"), ("O1P", "O"), ("HO5'", "H"), ("CA", "CA"), ("CA", "C")):
        d.append(_name_el(1, nm, el))
    d.append(_set(4, "element", None))
    d.append(_set(0, "altloc", "A"))
    d.append(_altloc_pair)
    d.append(_res(3, 3, "icode", "A"))
    d.append(_res(0, 3, "icode", "Z"))
    for ch in ("a", "1"):
        d.append(_res(6, 6, "chain", ch))
    for v in (-5, 9999, -999, 0):
        d.append(_res(0, 3, "resseq", v))
    for v in ("0.000", "-0.001", "9999.999", "-999.999", "0.001"):
        d.append(_set(2, "x", v))
    d.append(_set(5, "z", "-0.000"))
    for v in ("0.00", "0.50"):
        d.append(_set(3, "occ", v))
    for v in ("0.00", "99.99", "100.00", "-5.00"):
        d.append(_set(3, "b", v))
    for v in (1, -2, 3):
        d.append(_set(7, "charge", v))
    d.append(_set(0, "charge", -1))
    d.append(_res(9, 3, "record", "HETATM"))
    d.append(_set(11, "record", "HETATM"))
    d.append(_second_model)
    d.append(_serial_offset(99980))
    d.append(_serial_offset(998))
    for v in ("DG", "5MC", "HOH"):
        d.append(_res(3, 3, "resname", v))
    # appended (earlier indices stay valid for stored replays): model numbers that fill the four-column MODEL serial field / do not start at 1
    d.append(_model_numbers(999, 1000))
    d.append(_model_numbers(2, 9999))
    # a blank chain identifier (column 22 is a space): legal in PDB files, only PDB text can express it
    d.append(_res(0, 12, "chain", " "))
    # one chain only (with a second model: consecutive models end and begin in a chain of the same name); atom names of the pre-2008 PDB style
    d.append(_one_chain)
    d.append(_name_el(1, "O3*", "O"))
    d.append(_name_el(8, "C5M", "C"))
    d.append(_sodium)
    d.append(_segid)
    d.append(_model_numbers(0, 1))
    # the last atom carries serial 99999 (one model: 12 atoms from 99988): every field fits, the TER record after it needs the next number
    d.append(_serial_offset(99987))
    return d


DEVS = deviations()
LAYOUT_CRITICAL = [k for k, f in enumerate(DEVS) if any(s in f.__name__ for s in ("name=", "resseq", ".x=", "serial+", "_second_model", "charge", "icode", "_altloc", "models=", "_one_chain"))]


def BOUNDS(tier):
    q = tier == "quick"
    return dict(deviation_list=len(DEVS), d=2, d3="none" if q else "triples over the %d layout-critical deviations" % len(LAYOUT_CRITICAL), depth=2 if q else 3,
                start_formats=["PDB", "mmCIF"])


def cases(tier):
    import itertools

    blank = [k for k, f in enumerate(DEVS) if f.__name__ == "residue@0.chain=' '"][0]
    segid = [k for k, f in enumerate(DEVS) if f.__name__ == "_segid"][0]
    for c in enumio.combos(DEVS, 2):
        for fmt in ("PDB", "mmCIF"):
            if fmt == "mmCIF" and (blank in c or segid in c):
                continue
            yield dict(devs=list(c), start=fmt)
    if tier != "quick":
        for c in itertools.combinations(LAYOUT_CRITICAL, 3):
            for fmt in ("PDB", "mmCIF"):
                yield dict(devs=list(c), start=fmt)


def splitter_cases(tier):
    two = [k for k, f in enumerate(DEVS) if f.__name__ == "_second_model"][0]
    for c in enumio.combos(DEVS, 1):
        for extra in ((), (two,)):
            devs = sorted(set(c) | set(extra))
            for fmt in ("PDB", "mmCIF"):
                for target in ("keep", "PDB", "mmCIF"):
                    yield dict(devs=devs, start=fmt, splitter=target)
                    if fmt == "mmCIF" and target == "PDB":
                        # label ids that differ from the author ids (two-character label_asym_id): PDB output is written from the author ids alone
                        yield dict(devs=devs, start=fmt, splitter=target, labels=True)


def families(tier):
    return [("tables", lambda: cases(tier), 1), ("splitter", lambda: splitter_cases(tier), 1)]


def _num(v):
    return None if v is None or (isinstance(v, float) and math.isnan(v)) else v


def df_view(df):
    """Canonical PDB view of a frame in either schema (harness code; reads columns by name)."""
    import pandas as pd

    fmt = df.attrs.get("format")
    out = []
    for _, r in df.iterrows():
        def g(*names):
            for n in names:
                if n in df.columns:
                    v = r[n]
                    if v is None or (not isinstance(v, str) and pd.isna(v)):
                        return None
                    return v
            return None
        if fmt == "PDB":
            ch = g("charge")
            charge = None
            if ch not in (None, ""):
                s = str(ch)
                if len(s) == 2 and s[0].isdigit() and s[1] in "+-":
                    charge = int(s[0]) * (1 if s[1] == "+" else -1)
                else:
                    try:
                        charge = int(float(s)) or None  # frames fitted from mmCIF keep the signed integer
                    except ValueError:
                        charge = "unparsable:%s" % s
            rec = (g("record_type"), g("serial"), g("name"), g("altLoc"), g("resName"), g("chainID"), g("resSeq"), g("iCode"),
                   g("x"), g("y"), g("z"), g("occupancy"), g("tempFactor"), g("element"), charge, g("model"))
        else:
            ch = g("pdbx_formal_charge")
            charge = int(ch) if ch is not None and int(ch) != 0 else None
            seq = g("auth_seq_id")
            rec = (g("group_PDB"), g("id"), g("auth_atom_id", "label_atom_id"), g("label_alt_id"), g("auth_comp_id", "label_comp_id"), g("auth_asym_id", "label_asym_id"),
                   int(seq) if seq is not None else None, g("pdbx_PDB_ins_code"), g("Cartn_x"), g("Cartn_y"), g("Cartn_z"), g("occupancy"), g("B_iso_or_equiv"),
                   g("type_symbol"), charge, g("pdbx_PDB_model_num"))
        rec = list(rec)
        for k in (1, 6, 15):
            rec[k] = int(rec[k]) if rec[k] is not None else None
        for k, nd in ((8, 3), (9, 3), (10, 3), (11, 2), (12, 2)):
            rec[k] = enumio.dec(rec[k], nd) if rec[k] is not None else None
            if rec[k] in ("-0.000", "-0.00"):
                rec[k] = rec[k][1:]
        for k in (0, 2, 3, 4, 5, 7, 13):
            rec[k] = str(rec[k]) if rec[k] not in (None, "") else None
        out.append(tuple(rec))
    return out


def norm_view(v):
    out = []
    for rec in v:
        rec = list(rec)
        if rec[5] is not None and not str(rec[5]).strip():
            rec[5] = None  # a blank chain identifier is 'no chain identifier' in every representation
        for k in (8, 9, 10, 11, 12):
            if rec[k] in ("-0.000", "-0.00"):
                rec[k] = rec[k][1:]
        out.append(tuple(rec))
    return out


def first_diff(got, want):
    if len(got) != len(want):
        return "atoms", "%d atoms instead of %d" % (len(got), len(want))
    for a, b in zip(got, want):
        for k, f in enumerate(enumio.FIELDS):
            if a[k] != b[k]:
                return f, "atom serial %s: %s is %r, expected %r" % (b[1], f, a[k], b[k])
    return None


def run_splitter(case, table):
    """splitter.main in-process: one output file per model, each must read back as exactly that model's atoms."""
    import contextlib
    import io
    import os
    import shutil
    import sys

    from rnapolis import parser_v2, splitter

    from mc.engine import scratch_dir

    out = []
    sd = scratch_dir()
    ext = ".pdb" if case["start"] == "PDB" else ".cif"
    src = os.path.join(sd, "split_in" + ext)
    with open(src, "w") as f:
        f.write(enumio.emit_pdb(table) if case["start"] == "PDB" else enumio.emit_cif(table, label_differs=bool(case.get("labels"))))
    od = os.path.join(sd, "split_out")
    shutil.rmtree(od, ignore_errors=True)
    old = sys.argv
    sys.argv = ["splitter", "-o", od, "-f", case["splitter"], src]
    buf, err = io.StringIO(), io.StringIO()
    try:
        with contextlib.redirect_stdout(buf), contextlib.redirect_stderr(err):
            r = observe(splitter.main)
    finally:
        sys.argv = old
    if r[0] == "exc" and not r[1].startswith("exception:SystemExit"):
        return [viol("splitter:" + r[1], "splitter.main raised " + r[2])]
    if "Error" in err.getvalue():
        out.append(viol("splitter:reports-error", "splitter.main printed an error for a table within PDB limits: %s" % err.getvalue()[:200]))
    models = []
    for a in table:
        if a["model"] not in models:
            models.append(a["model"])
    target = case["splitter"] if case["splitter"] != "keep" else case["start"]
    for m in models:
        name = "split_in_model_%d%s" % (m, ".pdb" if target == "PDB" else ".cif")
        path = os.path.join(od, name)
        if not os.path.exists(path):
            out.append(viol("splitter:missing-file", "no output file for model %d (%s)" % (m, sorted(os.listdir(od)) if os.path.isdir(od) else "no directory")))
            continue
        txt = open(path).read()
        rb = observe(parser_v2.parse_pdb_atoms if target == "PDB" else parser_v2.parse_cif_atoms, txt)
        if rb[0] == "exc":
            out.append(viol("splitter:read-back:" + rb[1], "reading %s raised %s" % (name, rb[2])))
            continue
        want = norm_view(enumio.table_view([a for a in table if a["model"] == m]))
        dd = first_diff(norm_view(df_view(rb[1])), want)
        if dd:
            out.append(viol("splitter:%s->%s:%s" % (case["start"], target, dd[0]), "splitter output for model %d: %s" % (m, dd[1])))
        if target == "PDB":
            atoms, problems, events = enumio.read_pdb_layout(txt)
            problems += enumio.check_pdb_structure(events)
            if problems:
                out.append(viol("splitter:layout:" + _layout_kind(problems[0]), "splitter PDB output: %s" % "; ".join(problems[:3])))
    return out


def run_case(case):
    from rnapolis import parser_v2

    if enumio.apply_deviations([DEVS[k] for k in case["devs"]]) is None:
        return dict(nontrivial=False, outcome="inapplicable", violations=[])
    if "splitter" in case:
        table = enumio.apply_deviations([DEVS[k] for k in case["devs"]])
        try:
            enumio.emit_pdb(table)
            fits = not any(a["serial"] > 99999 for a in table)  # every atom serial fits its five columns (a TER record after atom 99999 wraps to 0)
        except AssertionError:
            fits = False
        if not fits:
            return dict(nontrivial=False, outcome="outside-pdb-limits", violations=[])
        v = run_splitter(case, table)
        u = {}
        for x in v:
            u.setdefault(x["signature"], x)
        return dict(nontrivial=True, outcome="splitter:%s->%s" % (case["start"], case["splitter"]), violations=list(u.values()), states=1, transitions=1, traces=1)
    table = enumio.apply_deviations([DEVS[k] for k in case["devs"]])
    try:
        enumio.emit_pdb(table)
        fits = not any(a["serial"] > 99999 for a in table)  # every atom serial fits its five columns (a TER record after atom 99999 wraps to 0)
    except AssertionError:
        fits = False
    if not fits:
        return dict(nontrivial=False, outcome="outside-pdb-limits", violations=[])
    want = norm_view(enumio.table_view(table))
    out = []
    sigs = set()

    def add(sig, msg, obs=None, exp=None):
        if sig not in sigs:
            sigs.add(sig)
            out.append(viol(sig, msg, obs, exp))

    text = enumio.emit_pdb(table) if case["start"] == "PDB" else enumio.emit_cif(table)
    parse = parser_v2.parse_pdb_atoms if case["start"] == "PDB" else parser_v2.parse_cif_atoms
    r = observe(parse, text)
    if r[0] == "exc":
        return dict(nontrivial=True, outcome="parse-exc", violations=[viol("initial-parse:%s:%s" % (case["start"], r[1]), "parsing the emitted %s raised %s" % (case["start"], r[2]))])
    d = first_diff(norm_view(df_view(r[1])), want)
    if d:
        add("initial-parse:%s:%s" % (case["start"], d[0]), "parsing the emitted %s text: %s" % (case["start"], d[1]), None, None)
        return dict(nontrivial=True, outcome="initial-diff", violations=out, states=1, transitions=1)
    depth = 2 if _tier[0] == "quick" else 3
    frontier = collections.deque([(r[1], [case["start"]])])
    states = 1
    transitions = 0
    distinct = {repr(want)}
    while frontier:
        df, path = frontier.popleft()
        if len(path) - 1 >= depth:
            continue
        for target in ("PDB", "mmCIF"):
            edge = "%s->%s" % (path[-1], target)
            p2 = path + [target]
            transitions += 1
            if target == "PDB":
                w = observe(parser_v2.write_pdb, df)
            else:
                w = observe(parser_v2.write_cif, df)
            if w[0] == "exc":
                add("write:%s:%s" % (edge, w[1]), "writing along %s raised %s" % ("->".join(p2), w[2]))
                continue
            txt = w[1]
            if target == "PDB":
                atoms, problems, events = enumio.read_pdb_layout(txt)
                problems += enumio.check_pdb_structure(events)
                if problems:
                    kind = problems[0].split(":")[-1].strip().split(" ")[0:3]
                    add("layout:%s" % _layout_kind(problems[0]), "written PDB (path %s): %s" % ("->".join(p2), "; ".join(problems[:3])), txt[:600], None)
                else:
                    dd = first_diff(norm_view(enumio.table_view(atoms)), want)
                    if dd:
                        add("layout-fields:%s:%s" % (edge, dd[0]), "independent column reader on written PDB (path %s): %s" % ("->".join(p2), dd[1]), txt[:600], None)
            r2 = observe(parser_v2.parse_pdb_atoms if target == "PDB" else parser_v2.parse_cif_atoms, txt)
            if r2[0] == "exc":
                add("read-back:%s:%s" % (edge, r2[1]), "reading back along %s raised %s" % ("->".join(p2), r2[2]))
                continue
            got = norm_view(df_view(r2[1]))
            dd = first_diff(got, want)
            if dd:
                add("roundtrip:%s:%s" % (edge, dd[0]), "path %s: %s" % ("->".join(p2), dd[1]), None, None)
                distinct.add(repr(got))
                continue
            states += 1
            frontier.append((r2[1], p2))
    return dict(nontrivial=bool(case["devs"]), outcome="distinct-states=%d" % len(distinct), violations=out, states=states, transitions=transitions, traces=transitions)


def _layout_kind(p):
    for k in ("80", "missing TER after the last chain", "missing TER between", "separator", "charge", "coordinate", "fixed-column", "MODEL", "ENDMDL", "TER residue number", "TER", "atom outside"):
        if k in p:
            return k.replace(" ", "-")
    return "other"
