"""C01 - BPSEQ <-> dot-bracket conversion is lossless for every encoder (form S)."""
import itertools

from mc import enum2d
from mc.props.common2d import build, call, check_dbn, info, seq_of, viol
from mc.ref import ref2d

ID = "C01"
LEVEL = "exploration"
RULE = (
    "every partial matching on 1..N (M), every chord diagram of K stems x length vectors x gap (D), ladders of K mutually "
    "crossing stems K=1..30, every balanced dot-bracket string up to length L over the stated bracket types, every strand split; "
    "each encoded by dot_bracket, fcfs and every member of all_dot_brackets and decoded by an independent per-type stack "
    "decoder. non-trivial = the structure has at least one pair (strings: at least one bracket); distinct = distinct input."
)
ASSUMPTIONS = [
    "letters never influence 2D code paths (checked by running N<=6 with two letter assignments)",
    "CBC is the only MILP back-end in this image; HiGHS is absent",
    "all_dot_brackets is only called when the largest group of crossing stems has <= 7 members (factorial enumeration)",
]
LAD_MILP = dict(quick=12, thorough=16)
_tier = ['quick']


def worker_init(tier):
    _tier[0] = tier


def BOUNDS(tier):
    q = tier == "quick"
    return dict(
        M_N=10 if q else 12,
        D_K=4 if q else 5,
        D_lengths=[1, 2],
        D_gaps=[0, 1],
        D6="none" if q else "all 10395 diagrams x all-ones lengths + each single long stem x gaps {0,1}",
        ladders="1..30 (fcfs); MILP path for K<=%d" % LAD_MILP[tier],
        strings="length<=%d over 3 types; length<=%d over ( plus each of the other 29 types" % ((8, 5) if q else (10, 6)),
        multistrand="strings of length<=%d split into 1..3 strands" % (5 if q else 6),
        solver_stopped="M(N<=%d) x {raise, not_solved, infeasible, unbounded, undefined, no solver}" % (6 if q else 8),
    )


def families(tier):
    q = tier == "quick"
    fams = [
        ("M", lambda: enum2d.M(10 if q else 12), 1),
        ("M-letters2", lambda: ({**c, "shift": 1} for c in enum2d.M(6)), 1),
        ("M-exotic-letters", lambda: (enum2d.exotic(c) for c in enum2d.M(7, nmin=2)), 1),
        ("many-stems", lambda: __import__("mc.props.c02", fromlist=["x"])._many_stems(tier), 1),
        ("long-chains", lambda: __import__("mc.props.c02", fromlist=["x"])._long_chains(tier), 1),
        ("long-stems", lambda: __import__("mc.props.c02", fromlist=["x"])._long_stems(tier), 1),
        ("many-groups", lambda: __import__("mc.props.c16", fromlist=["x"])._many_groups(), 1),
        ("D", lambda: enum2d.D(4 if q else 5), 1),
        ("Lad", lambda: ({**enum2d.ladder(K, gap=g), "ladder": K} for K in range(1, 32) for g in (0, 1)), 1),
        ("strings3", lambda: ({"dbn": s} for L in range(1, (8 if q else 10) + 1) for s in enum2d.balanced_strings(L, (0, 1, 2))), 1),
        ("strings-each-type", lambda: ({"dbn": s} for t in range(1, 30) for L in range(2, (5 if q else 6) + 1)
                                       for s in enum2d.balanced_strings(L, (0, t)) if enum2d.OPEN[t] in s), 1),
        ("multistrand", lambda: _multistrand(5 if q else 6), 1),
    ]
    fams.append(("solver-stopped", lambda: ({**c, "stopped": beh} for c in enum2d.M(6 if q else 8) for beh in ("raise", "not_solved", "infeasible", "unbounded", "undefined", "none")), 1))
    if not q:
        lf = lambda lv: sum(1 for x in lv if x == 2) <= 1
        fams.append(("D6", lambda: enum2d.D(6, kmin=6, length_filter=lf), 1))
    return fams


def _multistrand(L):
    for n in range(2, L + 1):
        # round + square brackets, and round + angle brackets (a strand may BEGIN with the closing angle bracket '>', the character that also opens a header line)
        for s in itertools.chain(enum2d.balanced_strings(n, (0, 1)), (x for x in enum2d.balanced_strings(n, (0, 3)) if "<" in x)):
            if "(" not in s and "[" not in s and "<" not in s:
                continue
            for cuts in itertools.chain([()], itertools.combinations(range(1, n), 1), itertools.combinations(range(1, n), 2)):
                for header in (False, True):
                    yield {"dbn": s, "cuts": list(cuts), "header": header}


def run_case(case):
    if "dbn" in case:
        return _run_string(case)
    out = []
    shift = case.get("shift", 0)
    seq = seq_of(case, shift)
    stems, graph, knotted, maxcomp = info(case)
    outcome = []
    lad = case.get("ladder")
    if lad == 31:
        # beyond the 30 bracket levels: not in scope; recorded, never a violation
        from mc.engine import observe

        r = observe(lambda: build(case).fcfs)
        return dict(nontrivial=False, outcome="ladder31:" + r[0], violations=[])
    b = call("from_string", build, out, case, shift)
    if b is None:
        return dict(nontrivial=True, outcome="build-failed", violations=out)
    if "stopped" in case:
        # the notation produced when the solver does not deliver a solution is also "a dot-bracket string the library produces"
        from mc import seams

        solver = seams.FaultSolver([case["stopped"]]) if case["stopped"] != "none" else None
        d = call("convert_to_dot_bracket[solver %s]" % case["stopped"], b.convert_to_dot_bracket, out, solver)
        if d is not None:
            check_dbn("solver-stopped", case, seq, d, out)
        return dict(nontrivial=knotted, outcome="solver-stopped", violations=out)
    # BpSeq text round trip
    from rnapolis.common import BpSeq

    b2 = call("from_string(str)", lambda: BpSeq.from_string(str(b)), out)
    if b2 is not None and not (b2 == b and str(b2) == str(b)):
        out.append(viol("bpseq-text-roundtrip", "BpSeq.from_string(str(b)) != b", str(b2), str(b)))
    want = {}
    for i, j in case["pairs"]:
        want[i] = j
        want[j] = i
    if b.pairs != want:
        out.append(viol("pairs-dict", "BpSeq.pairs differs from the input pairing", b.pairs, want))
    encs = []
    f = call("fcfs", lambda: b.fcfs, out)
    if f is not None:
        encs.append(("fcfs", f))
    if lad is None or lad <= LAD_MILP[_tier[0]]:
        d = call("dot_bracket", lambda: b.dot_bracket, out)
        if d is not None:
            encs.append(("dot_bracket", d))
    if maxcomp <= 7:
        al = call("all_dot_brackets", lambda: b.all_dot_brackets, out)
        if al is not None:
            outcome.append("all=%d" % min(len(al), 9))
            for x in al:
                encs.append(("all_dot_brackets", x))
    for where, dbn in encs:
        dec = check_dbn(where, case, seq, dbn, out)
        if dec is not None:
            # back to BPSEQ
            bb = call("from_dotbracket", lambda: BpSeq.from_dotbracket(dbn), out)
            if bb is not None and not (bb == b):
                out.append(viol(where + ":from_dotbracket-roundtrip", "BpSeq.from_dotbracket(%s) != original" % where, str(bb), str(b)))
    outcome.append("knotted" if knotted else ("nested" if case["pairs"] else "empty"))
    return dict(nontrivial=bool(case["pairs"]), outcome=" ".join(outcome), violations=out)


def _files(case, seq, s, dbn, out):
    """The file readers of the same texts: DotBracket.from_file (two lines / header + two lines), MultiStrandDotBracket.from_file, BpSeq.from_file."""
    import os

    from rnapolis.common import BpSeq, DotBracket, MultiStrandDotBracket

    from mc.engine import scratch_dir

    sd = scratch_dir()
    p = os.path.join(sd, "c01.dbn")
    for name, text in (("two-lines", "%s\n%s\n" % (seq, s)), ("header", ">strand_A\n%s\n%s\n" % (seq, s)), ("no-final-newline", "%s\n%s" % (seq, s))):
        with open(p, "w") as f:
            f.write(text)
        d = call("DotBracket.from_file:" + name, DotBracket.from_file, out, p)
        if d is not None and (d.sequence, d.structure, sorted(d.pairs)) != (seq, s, sorted(dbn.pairs)):
            out.append(viol("from_file:DotBracket:" + name, "DotBracket.from_file reads %r differently from from_string" % text, [d.sequence, d.structure], [seq, s]))
        m = call("MultiStrandDotBracket.from_file:" + name, MultiStrandDotBracket.from_file, out, p)
        if m is not None and (m.sequence, m.structure, sorted(m.pairs)) != (seq, s, sorted(dbn.pairs)):
            out.append(viol("from_file:MultiStrandDotBracket:" + name, "MultiStrandDotBracket.from_file reads %r differently from from_string" % text, [m.sequence, m.structure], [seq, s]))
    b0 = call("from_dotbracket", BpSeq.from_dotbracket, out, dbn)
    if b0 is not None:
        for name, text in (("plain", str(b0) + "\n"), ("blank-lines-and-spaces", "\n" + "\n".join("  %s  " % ln for ln in str(b0).splitlines()) + "\n\n")):
            with open(p, "w") as f:
                f.write(text)
            bf = call("BpSeq.from_file:" + name, BpSeq.from_file, out, p)
            if bf is not None and not (bf == b0 and str(bf) == str(b0)):
                out.append(viol("from_file:BpSeq:" + name, "BpSeq.from_file(str(b)) != b", str(bf), str(b0)))
        # the same pairing under residue symbols other than ACGU ('?' is what the library itself writes for a missing residue, '-' and '.' occur in other tools' files)
        sym = "?X-n.N"
        lines = ["%d %s %d" % (e.index_, sym[(e.index_ - 1) % len(sym)], e.pair) for e in b0.entries]
        with open(p, "w") as f:
            f.write("\n".join(lines) + "\n")
        bf = call("BpSeq.from_file:symbols", BpSeq.from_file, out, p)
        if bf is not None and [(e.index_, e.sequence, e.pair) for e in bf.entries] != [(e.index_, sym[(e.index_ - 1) % len(sym)], e.pair) for e in b0.entries]:
            out.append(viol("from_file:BpSeq:symbols", "BpSeq.from_file drops or changes entries whose residue symbol is not a letter", str(bf), "\n".join(lines)))


def _run_string(case):
    from rnapolis.common import BpSeq, DotBracket, MultiStrandDotBracket

    out = []
    s = case["dbn"]
    n = len(s)
    seq = enum2d.letters_for(n)
    want, probs = ref2d.decode(s)
    assert not probs, (s, probs)
    want = set(want)
    if "cuts" in case:
        cuts = [0] + case["cuts"] + [n]
        text = ""
        for k in range(len(cuts) - 1):
            if case["header"]:
                text += ">strand_%d\n" % k
            text += seq[cuts[k] : cuts[k + 1]] + "\n" + s[cuts[k] : cuts[k + 1]] + "\n"
        dbn = call("MultiStrandDotBracket.from_string", MultiStrandDotBracket.from_string, out, text)
        if dbn is None:
            return dict(nontrivial=True, outcome="exc", violations=out)
        if dbn.sequence != seq or dbn.structure != s:
            out.append(viol("multistrand:concat", "strands do not concatenate to the input", [dbn.sequence, dbn.structure], [seq, s]))
        exp = [(cuts[k] + 1, cuts[k + 1], seq[cuts[k] : cuts[k + 1]], s[cuts[k] : cuts[k + 1]]) for k in range(len(cuts) - 1)]
        got = [(st.first, st.last, st.sequence, st.structure) for st in dbn.strands]
        if got != exp:
            out.append(viol("multistrand:strands", "strand table differs", got, exp))
    else:
        dbn = call("DotBracket.from_string", DotBracket.from_string, out, seq, s)
        if dbn is None:
            return dict(nontrivial=True, outcome="exc", violations=out)
    got = set((i + 1, j + 1) for i, j in dbn.pairs)
    if got != want:
        out.append(viol("DotBracket.pairs", "DotBracket.pairs of %r differs from the stack decoder" % s, sorted(got), sorted(want)))
    if n <= 6:
        _files(case, seq, s, dbn, out)
    b = call("from_dotbracket", BpSeq.from_dotbracket, out, dbn)
    if b is not None:
        bp = set((e.index_, e.pair) for e in b.entries if e.pair > e.index_)
        sym = all(b.entries[e.pair - 1].pair == e.index_ for e in b.entries if e.pair)
        if bp != want or not sym or b.sequence != seq:
            out.append(viol("from_dotbracket:pairs", "from_dotbracket(%r) pairs differ" % s, sorted(bp), sorted(want)))
        else:
            case2 = dict(n=n, pairs=sorted(want))
            for where, fn in (("dot_bracket", lambda: b.dot_bracket), ("fcfs", lambda: b.fcfs)):
                e = call("string->" + where, fn, out)
                if e is not None:
                    check_dbn("string->" + where, case2, seq, e, out)
    return dict(nontrivial=bool(want), outcome="string", violations=out)
