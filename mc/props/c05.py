"""C05 - annotation depends only on internal geometry and identity, not on presentation (form S, metamorphic)."""
import itertools
import os
import re
from decimal import Decimal

import numpy as np

from mc import corpus, enum3d, enumio
from mc.engine import observe, scratch_dir
from mc.props import ann_families as fam
from mc.props.common2d import viol
from mc.ref import refann

ID = "C05"
LEVEL = "exploration"
RULE = (
    "every structure of the input list (corpus structures re-emitted from their abstract atom tables; lattice structures with at least one "
    "interaction) x every single transformation (d=1) and every pair of transformations from different groups (d=2) of the finite family: rigid "
    "{23 cube rotations, 3 (quick) / 59 (thorough) icosahedral rotations, 9 translations up to +-500 A}, atom order inside residues {reversed, rotated by 1, sorted by name, sorted "
    "descending}, order-preserving relabelings {monotone chain map, numbers +1000, numbers starting at -300, residues sharing a number and told apart by insertion codes (pairs / triples), label ids != auth ids}, format {PDB instead "
    "of mmCIF}; rigid+format pairs use decimal-exact motions (axis permutations with sign flips, decimal translations) applied to the coordinate "
    "strings. The full annotation (base pairs with classes and Saenger, stackings, BPh, BR), BPSEQ, dot-bracket and extended dot-bracket of the "
    "transformed input must equal those of the original up to the applied renaming; inputs whose smallest decision margin (reference annotator) is "
    "below 1e-6 are undecided. non-trivial = the original annotation is non-empty and decided; distinct = (structure, transformation tuple)."
)
ASSUMPTIONS = [
    "both sides of a format comparison are texts produced by the harness's emitter from the same abstract atom list",
    "structures that PDB cannot represent are skipped for the format transformation (counted)",
    "processing order of KD-tree pairs is not a presentation: only realised, replayable input pairs count",
]
_tier = ["quick"]
FILES_Q = ["1HMH_1_E.cif", "6INQ.cif", "1DFU_1_M-N.cif", "4WTI_1_T-P.cif", "1E7K_1_C.cif", "1A1T_1_B.cif", "1JJP.cif", "6FC9.cif"]
FILES_T = FILES_Q + ["1E7K_1_C_modified.cif", "184D.cif", "4gqj-assembly1.cif", "1ATO.pdb", "6RS3.cif", "2HY9.cif", "488d.pdb", "q-ugg-5k-salt_400-500ns_frame1065.pdb", "1ehz-assembly-1.cif",
                     "8btk_B7.cif", "4qln.cif"]
TRANSLATIONS = [(500, 0, 0), (-500, 0, 0), (0, 500, 0), (0, -500, 0), (0, 0, 500), (0, 0, -500), (500, 500, 500), (-500, -500, -500), ("123.456", "-78.9", "0.001")]


def worker_init(tier):
    _tier[0] = tier


def transformations(tier):
    T = []
    for k in range(1, 24):
        T.append(("rigid", "cube", k))
    for k in (range(1, 60) if tier != "quick" else (7, 23, 41)):  # irrational entries: exercise rounding
        T.append(("rigid", "ico", k))
    for k in range(len(TRANSLATIONS)):
        T.append(("rigid", "translate", k))
    for k in ("reversed", "rotated", "sorted", "sorted-desc"):
        T.append(("order", k, None))
    for k in ("chains", "plus1000", "from-300", "around-zero", "icode-pairs", "icode-triples", "label-differs", "hetatm-serials"):
        T.append(("relabel", k, None))
    T.append(("format", "pdb", None))
    return T


def BOUNDS(tier):
    q = tier == "quick"
    return dict(files=len(FILES_Q if q else FILES_T), lattice_structures=60 if q else 600, transformations=len(transformations(tier)),
                d="1 on all inputs; 2 (pairs from different groups, rigid restricted to 6 representatives) on %s" % ("the 5 smallest files and every 4th lattice structure" if q else "all inputs"))


def lattice_inputs(tier):
    n = 60 if tier == "quick" else 600
    out = []
    seeds = fam.g2("thorough")
    step = max(1, len(seeds) // n)
    return seeds[::step][:n]


def cases(tier):
    q = tier == "quick"
    T = transformations(tier)
    inputs = [dict(file=f) for f in (FILES_Q if q else FILES_T)] + [dict(lattice=c) for c in lattice_inputs(tier)]
    reps = [t for t in T if t[0] != "rigid"] + [("rigid", "cube", 5), ("rigid", "cube", 14), ("rigid", "cube", 22), ("rigid", "translate", 6), ("rigid", "translate", 7), ("rigid", "translate", 8)] + \
           ([("rigid", "ico", 17)] if not q else [])
    for k, inp in enumerate(inputs):
        for t in T:
            yield dict(inp, ts=[list(t)])
        if (not q) or ("file" in inp and inputs.index(inp) < 5) or ("lattice" in inp and k % 4 == 0):
            for a, b in itertools.combinations(reps, 2):
                if a[0] != b[0]:
                    yield dict(inp, ts=[list(a), list(b)])


def near_cases(tier):
    """Two-nucleotide structures whose smallest decision margin lies in [2e-5, 2e-4] (committed list mc/data/near_threshold.json, built by
    tools/gen_near_threshold.py by bisection along lattice directions): decided by the property's 1e-6 rule, yet sensitive to anything that
    perturbs coordinates at the 1e-3 level. Built and moved in memory - no decimal text in between."""
    import json

    with open(os.path.join(os.path.dirname(os.path.dirname(os.path.abspath(__file__))), "data", "near_threshold.json")) as f:
        lst = json.load(f)
    motions = [("rigid", "ico", k) for k in range(1, 60)] + [("rigid", "cube", k) for k in (3, 5, 9, 14, 17, 22)] + [("rigid", "translate", k) for k in (0, 3, 6, 7, 8)]
    for c in lst:
        for m in motions:
            yield dict(near={k: v for k, v in c.items() if k not in ("margin", "crossed")}, crossed=c["crossed"], ts=[list(m)])


def altloc_cases(tier):
    """Lattice structures in which the last residue is present as two alternate conformers - one in place, one moved 8 A away - with occupancies
    (0.40, 0.60) / (0.60, 0.40) / in either listing order: the same atoms as PDB and as mmCIF must be annotated identically."""
    for k, c in enumerate(lattice_inputs(tier)[: 24 if tier == "quick" else 200]):
        for occ in (("0.40", "0.60"), ("0.60", "0.40")):
            for moved_first in (True, False):
                yield dict(lattice=c, altloc=dict(occ=list(occ), moved_first=moved_first))


def exact_cases(tier):
    """Two-nucleotide structures in exactly aligned geometry - the second base straight above or below the first (no lateral offset, no tilt), so that
    centroid vector and normals are exactly (anti)parallel and cosines are exactly +-1 - moved by general rotations, which make them inexact: the
    annotation must not distinguish 'exactly 180 degrees' from '179.9999999'."""
    motions = [("rigid", "ico", k) for k in range(1, 60, 2 if tier == "quick" else 1)] + [("rigid", "cube", k) for k in (5, 14)]
    seen = set()
    for c in fam.g1_stack("quick"):
        if c["r"] != 0.0 or c["tilt"] != 0.0 or c["ph"] not in (0, 180):
            continue
        key = (c["l1"], c["l2"], c["rise"], c["flip"], c["ph"])
        if key in seen:
            continue
        seen.add(key)
        near = dict(c, idmode=0, namemode=0, thinmode=0)
        for m in motions:
            yield dict(near=near, crossed="exact:alignment:%s%s" % (c["l1"], c["l2"]), ts=[list(m)])


MODRES_FILES_Q = ["1ehz-assembly-1.cif"]
MODRES_FILES_T = MODRES_FILES_Q + ["8btk_B7.cif", "1E7K_1_C_modified.cif"]
PARENT = {"2MG": "G", "M2G": "G", "OMG": "G", "7MG": "G", "YYG": "G", "1MA": "A", "H2U": "U", "5MU": "U", "PSU": "U", "OMC": "C", "5MC": "C", "OMU": "U", "4SU": "U", "A23": "A", "GTP": "G", "5BU": "U"}


def modres_cases(tier):
    """The same atoms with the records that declare modified residues: PDB text with MODRES records, mmCIF text with a _pdbx_struct_mod_residue category, mmCIF
    text without it. The declared parent is the true parent, so the declaration adds no information the atoms do not carry: the annotation is the same."""
    for f in (MODRES_FILES_Q if tier == "quick" else MODRES_FILES_T):
        yield dict(file=f, modres=True)


def run_modres(case):
    t = abstract_of(dict(file=case["file"]))
    mods = []
    for ident, atoms in corpus.residues(t):
        if ident[4] in PARENT and (ident[1], ident[2], ident[3], ident[4]) not in mods:
            mods.append((ident[1], ident[2], ident[3], ident[4]))
    if not mods or not corpus.pdb_expressible(t):
        return dict(nontrivial=False, outcome="no-modified-residues-or-not-pdb-expressible", violations=[])
    V = lambda x: ("v", str(x))
    N = lambda x: ("n", x)
    ld = any(a["icode"] for a in t)
    rows = [(V(k + 1), V(ch), V(rn), V(num), V(ch), V(rn), V(num), V(ic) if ic else N("?"), V(PARENT[rn]), V("MODIFIED NUCLEOTIDE")) for k, (ch, num, ic, rn) in enumerate(mods)]
    extra = {"pdbx_struct_mod_residue": (["id", "label_asym_id", "label_comp_id", "label_seq_id", "auth_asym_id", "auth_comp_id", "auth_seq_id", "PDB_ins_code", "parent_comp_id", "details"], rows)}
    modres = "".join("MODRES VERI %3s %1s %4d%1s %3s  MODIFIED NUCLEOTIDE\n" % (rn, ch, num, ic or " ", PARENT[rn]) for ch, num, ic, rn in mods)
    texts = {
        "mmCIF": enumio.emit_cif(t, label_differs=ld),
        "mmCIF+mod_residue": enumio.emit_cif(t, label_differs=ld, extra_categories=extra) if not ld else None,
        "PDB": enumio.emit_pdb(t),
        "PDB+MODRES": modres + enumio.emit_pdb(t),
    }
    from rnapolis.parser import read_3d_structure

    out = []
    ds = {}
    for name, text in texts.items():
        if text is None:
            continue
        path = os.path.join(scratch_dir(), "c05m." + ("pdb" if name.startswith("PDB") else "cif"))
        with open(path, "w") as f:
            f.write(text)

        def go():
            with open(path) as f:
                return digest(read_3d_structure(f, None))

        r = observe(go)
        if r[0] == "exc":
            out.append(viol("modres:%s:%s" % (name, r[1]), "reading / annotating the %s text raised %s" % (name, r[2])))
        else:
            ds[name] = r[1]
    base = ds.get("mmCIF")
    for name, d in ds.items():
        if base is None or name == "mmCIF":
            continue
        for k in base:
            if not same_value(k, base[k], d[k]):
                a, b = base[k], d[k]
                diff = ([x for x in a if x not in b][:2], [x for x in b if x not in a][:2]) if isinstance(a, list) else (str(a)[:200], str(b)[:200])
                out.append(viol("modres:differs:%s:%s" % (name, k), "%s: the %s text (modified residues declared with their true parents) gives another %s than the plain mmCIF text: %s vs %s" % (case["file"], name, k, diff[0], diff[1])))
                break
    return dict(nontrivial=True, key=[case["file"], "modres"], outcome="modres %s" % ("same" if not out else "DIFF"), violations=out)


def replicated_cases(tier):
    """N copies of a structure, 300 A apart, each under a chain name of its own, in ONE file: translation changes nothing, so every copy carries exactly the
    interactions of the single structure (14 copies of the tRNA: beyond 1 000 residues and 10 000 donor / acceptor atoms; thorough: 56 copies, beyond
    4 000 residues and 46 000 such atoms)."""
    for n in ((14,) if tier == "quick" else (14, 56)):
        yield dict(file="1ehz-assembly-1.cif", replicate=n)
        # the assembly under each of the 59 icosahedral rotations (one case each: they spread over the workers)
        for k in range(1, 60) if n == 14 else (7, 23, 41, 52):
            yield dict(file="1ehz-assembly-1.cif", replicate=n, rot=k)
    yield dict(file="1E7K_1_C.cif", replicate=3)


def _interactions(structure):
    from rnapolis.annotator import extract_base_interactions

    bi = extract_base_interactions(structure)
    k = lambda nt: (nt.chain, nt.number, nt.icode)
    out = []
    for x in bi.basePairs:
        out.append(("bp", k(x.nt1), k(x.nt2), x.lw.value))
    for x in bi.stackings:
        out.append(("st", k(x.nt1), k(x.nt2), x.topology.value if x.topology else None))
    for x in bi.baseRiboseInteractions:
        out.append(("br", k(x.nt1), k(x.nt2), x.br.value if x.br else None))
    for x in bi.basePhosphateInteractions:
        out.append(("bph", k(x.nt1), k(x.nt2), x.bph.value if x.bph else None))
    return out


def run_replicated(case):
    t = abstract_of(dict(file=case["file"]))
    chains = sorted({a["chain"] for a in t})
    if len(chains) != 1:
        return dict(nontrivial=False, outcome="several-chains", violations=[])
    n = case["replicate"]
    big = []
    for k in range(n):
        for a in t:
            b = dict(a)
            b["chain"] = "K%02d" % k
            b["x"] = dec_str(Decimal(a["x"]) + Decimal(300 * k))
            big.append(b)
    for i, a in enumerate(big):
        a["serial"] = i + 1
    out = []
    r1 = observe(lambda: _interactions(read_table(t, "mmCIF")))
    sbig = observe(read_table, big, "mmCIF")
    if sbig[0] == "exc":
        return dict(nontrivial=True, outcome="exc", violations=[viol("replicated:" + sbig[1], "reading %d copies raised %s" % (n, sbig[2]))])
    rn = observe(lambda: _interactions(sbig[1])) if not case.get("rot") else ("ok", [])
    if r1[0] == "exc" or rn[0] == "exc":
        bad = r1 if r1[0] == "exc" else rn
        return dict(nontrivial=True, outcome="exc", violations=[viol("replicated:" + bad[1], "annotating %s raised %s" % ("the single structure" if bad is r1 else "%d copies" % n, bad[2]))])
    single = sorted((kind, a[1:], b[1:], cls) for kind, a, b, cls in r1[1])
    per = {}
    for kind, a, b, cls in rn[1]:
        if a[0] != b[0]:
            out.append(viol("replicated:interaction-between-copies", "%d copies 300 A apart: an interaction joins two copies: %s %s %s" % (n, kind, a, b)))
            break
        per.setdefault(a[0], []).append((kind, a[1:], b[1:], cls))
    for k in (range(n) if not case.get("rot") else ()):
        got = sorted(per.get("K%02d" % k, []))
        if got != single:
            miss = [x for x in single if x not in got][:2]
            extra = [x for x in got if x not in single][:2]
            out.append(viol("replicated:copy-differs", "%s x %d copies 300 A apart: copy %d carries other interactions than the single structure: missing %s, extra %s" % (case["file"], n, k, miss, extra), len(got), len(single)))
            break
    # the whole assembly moved by general rotations (in memory): still the single structure's interactions in every copy
    if not out and refann.global_margin(refann.from_structure3d(read_table(t, "mmCIF"))) >= 1e-6:
        for ri in ([case["rot"]] if case.get("rot") else ()):
            rr = observe(lambda: _interactions(_rotate(sbig[1], enum3d.icosahedral_rotations()[ri])))
            if rr[0] == "exc":
                out.append(viol("replicated:rotated:" + rr[1], "annotating %d rotated copies raised %s" % (n, rr[2])))
                break
            per = {}
            for kind, a, b, cls in rr[1]:
                per.setdefault(a[0], []).append((kind, a[1:], b[1:], cls))
            bad = [k for k in range(n) if sorted(per.get("K%02d" % k, [])) != single]
            if bad:
                got = sorted(per.get("K%02d" % bad[0], []))
                out.append(viol("replicated:rotated-copy-differs", "%s x %d copies, rotated (icosahedral rotation %d): copy %d carries other interactions than the single structure: missing %s, extra %s"
                                % (case["file"], n, ri, bad[0], [x for x in single if x not in got][:2], [x for x in got if x not in single][:2]), len(got), len(single)))
                break
    return dict(nontrivial=bool(single), key=[case["file"], "replicate", n], outcome="replicated %d %s" % (n, "same" if not out else "DIFF"), violations=out)


def families(tier):
    return [("replicated", lambda: replicated_cases(tier), 1), ("modres-format", lambda: modres_cases(tier), 1), ("transformations", lambda: cases(tier), 32), ("near-threshold", lambda: near_cases(tier), 64), ("exact-alignment", lambda: exact_cases(tier), 32),
            ("altloc-format", lambda: altloc_cases(tier), 8)]


# ---------------------------------------------------------------------------------------------
_cache = {}


def abstract_of(case):
    """Abstract atom table of the input (one model, altloc A/none only, no repeated atoms)."""
    key = case.get("file") or repr(case["lattice"])
    if key in _cache:
        return _cache[key]
    if "file" in case:
        t = [dict(a) for a in corpus.table(case["file"])]
        t = [a for a in t if a["altloc"] in (None, "A")]
        for a in t:
            a["altloc"] = None
            a["model"] = 1
            a["occ"] = a["occ"] or "1.00"
            if not a["chain"].strip():
                a["chain"] = "A"
        seen = set()
        t2 = []
        for a in t:
            k = (a["chain"], a["resseq"], a["icode"], a["resname"], a["name"])
            if k not in seen:
                seen.add(k)
                t2.append(a)
        t = t2
        if not corpus.single_conformer(t):
            # partial-occupancy copies of residues written as separate, overlapping residues (488d.pdb): the reader keeps one copy of atoms closer than
            # 0.5 A by design (C08). The input of this check is made single-conformer by dropping, whole, every residue that has an atom within 0.5 A
            # of an atom of a residue with higher occupancy (or listed earlier at equal occupancy).
            import numpy as np
            from scipy.spatial import cKDTree

            pts = np.array([[float(a["x"]), float(a["y"]), float(a["z"])] for a in t])
            rid = [(a["chain"], a["resseq"], a["icode"], a["resname"]) for a in t]
            first = {}
            for k, r in enumerate(rid):
                first.setdefault(r, k)
            drop = set()
            for i, j in sorted(cKDTree(pts).query_pairs(0.5)):
                if rid[i] == rid[j]:
                    continue
                oi, oj = float(t[i]["occ"]), float(t[j]["occ"])
                loser = rid[j] if (oi, -first[rid[i]]) >= (oj, -first[rid[j]]) else rid[i]
                drop.add(loser)
            t = [a for a, r in zip(t, rid) if r not in drop]
    else:
        s = fam.structure_of(case["lattice"])
        t = []
        k = 1
        for r in s.residues:
            for a in r.atoms:
                t.append(enumio.atom(k, a.name, r.name, r.chain, r.number, "%.3f" % a.x, "%.3f" % a.y, "%.3f" % a.z, element=a.name[0], icode=r.icode))
                k += 1
    for k, a in enumerate(t):
        a["serial"] = k + 1
    _cache[key] = t
    return t


EXACT = {  # decimal-exact cube rotations: index -> (axis permutation, signs)
}


def cube_as_perm(m):
    perm, signs = [], []
    for row in m:
        j = [k for k in range(3) if row[k] != 0][0]
        perm.append(j)
        signs.append(row[j])
    return perm, signs


def dec_str(d):
    s = format(d, "f")
    if "." not in s:
        s += ".000"
    return s


def apply_abstract(t, tr):
    """Transformations that can be done on the abstract table / decimal strings."""
    group, kind, param = tr
    out = [dict(a) for a in t]
    if group == "rigid":
        if kind == "cube":
            perm, signs = cube_as_perm(enum3d.cube_rotations()[param])
            for a in out:
                src = [Decimal(a["x"]), Decimal(a["y"]), Decimal(a["z"])]
                vals = [src[perm[i]] * signs[i] for i in range(3)]
                a["x"], a["y"], a["z"] = (dec_str(v) for v in vals)
        elif kind == "translate":
            tv = [Decimal(str(v)) for v in TRANSLATIONS[param]]
            for a in out:
                a["x"], a["y"], a["z"] = dec_str(Decimal(a["x"]) + tv[0]), dec_str(Decimal(a["y"]) + tv[1]), dec_str(Decimal(a["z"]) + tv[2])
        else:
            raise KeyError(kind)
    elif group == "order":
        res = corpus.residues(out)
        out = []
        for _, atoms in res:
            if kind == "reversed":
                atoms = atoms[::-1]
            elif kind == "rotated":
                atoms = atoms[1:] + atoms[:1]
            elif kind == "sorted":
                atoms = sorted(atoms, key=lambda a: a["name"])
            else:
                atoms = sorted(atoms, key=lambda a: a["name"], reverse=True)
            out.extend(atoms)
    elif group == "relabel":
        if kind == "chains":
            chains = sorted({a["chain"] for a in out})
            # monotone map onto later letters / suffixes
            cmap = {c: (chr(ord(c) + 2) if len(c) == 1 and c.isalpha() and c.upper() < "X" else c + "x") for c in chains}
            if sorted(cmap.values()) != [cmap[c] for c in chains] or len(set(cmap.values())) != len(chains):
                cmap = {c: c for c in chains}
            for a in out:
                a["chain"] = cmap[a["chain"]]
        elif kind == "plus1000":
            for a in out:
                a["resseq"] += 1000
        elif kind == "from-300":
            lo = min(a["resseq"] for a in out)
            for a in out:
                a["resseq"] = a["resseq"] - lo - 300
        elif kind == "around-zero":
            # the lowest number becomes -1, so that 0 is a residue number of the structure
            lo = min(a["resseq"] for a in out)
            for a in out:
                a["resseq"] = a["resseq"] - lo - 1
        elif kind in ("icode-pairs", "icode-triples"):
            # order-preserving: consecutive residues of a chain share a number and differ by insertion code only (17, 17A, 17B, 18, ...)
            g = 2 if kind == "icode-pairs" else 3
            res = corpus.residues(out)
            ranks = {}
            for ch in {ident[1] for ident, _ in res}:
                members = sorted({(ident[2], ident[3] or " ") for ident, _ in res if ident[1] == ch})
                for k, m in enumerate(members):
                    ranks[(ch,) + m] = k  # rank in identity order, so the relabeling preserves the order whatever the file order is
            for ident, atoms in res:
                k = ranks[(ident[1], ident[2], ident[3] or " ")]
                for a in atoms:
                    a["resseq"] = 10 + k // g
                    a["icode"] = [None, "A", "B"][k % g]
        elif kind == "label-differs":
            for a in out:
                a["_label_differs"] = True
        elif kind == "hetatm-serials":
            # every other residue is written as HETATM (as modified nucleotides are) and atom serials start at 9 995, so that from the sixth atom on the
            # serial has five digits and touches the record name in PDB text ('HETATM10000'): record type and serial are not part of a residue's identity
            for k, (_, atoms) in enumerate(corpus.residues(out)):
                if k % 2 == 1:
                    for a in atoms:
                        a["record"] = "HETATM"
            for k, a in enumerate(out):
                a["serial"] = 9995 + k
            return out
    for k, a in enumerate(out):
        a["serial"] = k + 1
    return out


def same_value(k, a, b, ts=()):
    """Equality of one digest entry. Inter-stem parameters are floating-point functions of the coordinates: compared with a tolerance of 1e-3 (degrees /
    Angstrom / probability), and not at all where the two sides chose another closest endpoint pair at (numerically) the same distance. The gap-aware
    texts count missing residues by differences of residue numbers, which an insertion-code relabeling changes by design: not compared there."""
    if k.endswith("Gaps") and any(t[0] == "relabel" and str(t[1]).startswith("icode") for t in ts):
        return True
    if k != "interStem":
        return a == b
    if len(a) != len(b):
        return False
    for x, y in zip(a, b):
        if x[:2] != y[:2]:
            return False
        if x[2] != y[2]:
            if x[4] is None or y[4] is None or abs(x[4] - y[4]) > 1e-3:
                return False
            continue
        for u, v in zip(x[3:], y[3:]):
            if (u is None) != (v is None):
                return False
            if u is not None:
                d = abs(u - v)
                if min(d, abs(360.0 - d)) > 1e-3:
                    return False
    return True


def read_table(t, fmt):
    from rnapolis.parser import read_3d_structure

    # label_seq_id is unique per residue in real mmCIF files: when insertion codes are present the label ids must differ from the auth ids
    ld = any(a.get("_label_differs") for a in t) or any(a["icode"] for a in t)
    text = enumio.emit_pdb(t) if fmt == "PDB" else enumio.emit_cif(t, label_differs=ld)
    path = os.path.join(scratch_dir(), "c05." + ("pdb" if fmt == "PDB" else "cif"))
    with open(path, "w") as f:
        f.write(text)
    with open(path) as f:
        return read_3d_structure(f, None)


def digest(structure):
    """Annotation + derived 2D texts with residues identified by their position in the structure."""
    from rnapolis.annotator import extract_secondary_structure

    s2d, dbs = extract_secondary_structure(structure, None, False, False)
    idx = {}
    chains = []
    for k, r in enumerate(structure.residues):
        idx[(r.chain, r.number, r.icode)] = k
        if r.chain not in chains:
            chains.append(r.chain)

    def rk(nt):
        return idx.get((nt.chain, nt.number, nt.icode), ("?", nt.chain, nt.number, nt.icode))

    bi = s2d.baseInteractions

    def strands(text):
        return re.sub(r">strand_(\S+)", lambda m: ">strand_#%d" % chains.index(m.group(1)) if m.group(1) in chains else m.group(0), text)

    # the same interactions mapped with gap detection (placeholders for missing residues between unconnected same-chain neighbours): connectivity is
    # a distance test, so these texts are part of what must not depend on the presentation either
    from rnapolis.tertiary import Mapping2D3D

    mg = Mapping2D3D(structure, bi.basePairs, bi.stackings, True)
    return dict(
        bpseqGaps=str(mg.bpseq), dotBracketGaps=strands(mg.dot_bracket), extendedGaps=strands(mg.extended_dot_bracket),
        elements=[[str(e) for e in grp] for grp in (s2d.stems, s2d.singleStrands, s2d.hairpins, s2d.loops)],
        interStem=[[p.stem1_idx, p.stem2_idx, p.type, p.torsion, p.min_endpoint_distance, p.torsion_angle_pdf, p.min_endpoint_distance_pdf, p.coaxial_probability]
                   for p in (s2d.interStemParameters or [])],
        basePairs=[(rk(x.nt1), rk(x.nt2), x.lw.value, x.saenger.value if x.saenger else None) for x in bi.basePairs],
        stackings=[(rk(x.nt1), rk(x.nt2), x.topology.value if x.topology else None) for x in bi.stackings],
        baseRibose=sorted((rk(x.nt1), rk(x.nt2), x.br.value if x.br else None) for x in bi.baseRiboseInteractions),
        basePhosphate=sorted((rk(x.nt1), rk(x.nt2), x.bph.value if x.bph else None) for x in bi.basePhosphateInteractions),
        bpseq=s2d.bpseq, dotBracket=strands(s2d.dotBracket), extended=strands(s2d.extendedDotBracket),
    )


_base = {}


def base_of(case):
    key = case.get("file") or repr(case["lattice"])
    if key not in _base:
        t = abstract_of(case)
        s = read_table(t, "mmCIF")
        d = observe(digest, s)
        margin = refann.global_margin(refann.from_structure3d(s))
        _base[key] = (t, s, d, margin)
    return _base[key]


_near = {}


def run_near(case):
    key = repr(case["near"])
    if key not in _near:
        _near.clear()
        s0 = fam.structure_of(case["near"])
        _near[key] = (s0, observe(digest, s0), refann.global_margin(refann.from_structure3d(s0)))
    s0, d0, margin = _near[key]
    if d0[0] == "exc":
        return dict(nontrivial=True, outcome="base-exc", violations=[viol("original:" + d0[1], "annotating the original raised " + d0[2])])
    if margin < 1e-6:
        return dict(nontrivial=False, outcome="undecided-margin", violations=[], undecided=True)
    tr = tuple(case["ts"][0])
    if tr[1] == "cube":
        s1 = fam.variant(s0, "rotate", tr[2])
    elif tr[1] == "ico":
        s1 = _rotate(s0, enum3d.icosahedral_rotations()[tr[2]])
    else:
        s1 = fam.variant(s0, "translate", tuple(float(v) for v in TRANSLATIONS[tr[2]]))
    if refann.global_margin(refann.from_structure3d(s1)) < 1e-6:
        return dict(nontrivial=False, outcome="undecided-margin", violations=[], undecided=True)
    out = []
    r = observe(digest, s1)
    if r[0] == "exc":
        out.append(viol("near-threshold:rigid:" + r[1], "annotating the moved structure (%s) raised %s" % (tr, r[2])))
    else:
        for k in d0[1]:
            if not same_value(k, d0[1][k], r[1][k]):
                out.append(viol("near-threshold:differs:rigid:%s" % k, "%s:%s changes %s of a structure with decision margin %.2e (%s): %s -> %s (placement %s)" % (tr[1], tr[2], k, margin, case["crossed"], d0[1][k], r[1][k], case["near"])))
                break
    return dict(nontrivial=True, key=[case["near"], case["ts"]], outcome="near:%s %s" % (case["crossed"].split(":")[1], "same" if not out else "DIFF"), violations=out)


def run_altloc(case):
    t = abstract_of(dict(lattice=case["lattice"]))
    last = corpus.residues(t)[-1][0]
    out_t = []
    for a in t:
        ident = (a["model"], a["chain"], a["resseq"], a["icode"], a["resname"])
        if ident != tuple(last):
            out_t.append(dict(a))
            continue
        inplace, moved = dict(a), dict(a)
        moved["x"] = "%.3f" % (float(a["x"]) + 8.0)
        first, second = (moved, inplace) if case["altloc"]["moved_first"] else (inplace, moved)
        first["altloc"], second["altloc"] = "A", "B"
        first["occ"], second["occ"] = case["altloc"]["occ"]
        out_t.extend([first, second])
    for k, a in enumerate(out_t):
        a["serial"] = k + 1
    if not corpus.pdb_expressible(out_t):
        return dict(nontrivial=False, outcome="not-pdb-expressible", violations=[])
    out = []
    ds = {}
    for fmt in ("mmCIF", "PDB"):
        r = observe(lambda: digest(read_table(out_t, fmt)))
        if r[0] == "exc":
            out.append(viol("altloc:%s:%s" % (fmt, r[1]), "reading/annotating the %s text with alternate conformers raised %s" % (fmt, r[2])))
        else:
            ds[fmt] = r[1]
    if len(ds) == 2:
        for k in ds["PDB"]:
            if not same_value(k, ds["PDB"][k], ds["mmCIF"][k]):
                out.append(viol("altloc:differs:format:%s" % k, "the same atoms with alternate conformers (occupancies %s, moved conformer listed %s) give different %s as PDB and as mmCIF: %s vs %s"
                                % (case["altloc"]["occ"], "first" if case["altloc"]["moved_first"] else "second", k, ds["PDB"][k], ds["mmCIF"][k])))
                break
    nint = sum(len(ds.get("mmCIF", {}).get(k, [])) for k in ("basePairs", "stackings", "baseRibose", "basePhosphate"))
    return dict(nontrivial=True, key=[case["lattice"], case["altloc"]], outcome="altloc %s" % ("same" if not out else "DIFF"), violations=out)


def run_case(case):
    if case.get("modres"):
        return run_modres(case)
    if case.get("replicate"):
        return run_replicated(case)
    if "near" in case:
        return run_near(case)
    if "altloc" in case:
        return run_altloc(case)
    t, s0, d0, margin = base_of(case)
    if d0[0] == "exc":
        return dict(nontrivial=True, outcome="base-exc", violations=[viol("original:" + d0[1], "annotating the original raised " + d0[2])])
    d0 = d0[1]
    if margin < 1e-6:
        return dict(nontrivial=False, outcome="undecided-margin", violations=[], undecided=True)
    ts = [tuple(x) for x in case["ts"]]
    groups = [x[0] for x in ts]
    fmt = "PDB" if "format" in groups else "mmCIF"
    if fmt == "PDB":
        if not corpus.pdb_expressible(t):
            return dict(nontrivial=False, outcome="not-pdb-expressible", violations=[])
    tt = t
    inmem = []
    for tr in ts:
        if tr[0] == "format":
            continue
        if tr[0] == "rigid" and (tr[1] == "ico" or fmt != "PDB" and tr[1] in ("cube", "translate")):
            inmem.append(tr)
        else:
            if tr[0] == "relabel" and tr[1] == "label-differs" and fmt == "PDB":
                return dict(nontrivial=False, outcome="label-ids-not-in-pdb", violations=[])
            tt = apply_abstract(tt, tr)
    if fmt == "PDB" and not corpus.pdb_expressible(tt):
        return dict(nontrivial=False, outcome="not-pdb-expressible", violations=[])
    if tt is t and fmt == "mmCIF":
        s1 = s0
    else:
        r = observe(read_table, tt, fmt)
        if r[0] == "exc":
            return dict(nontrivial=True, outcome="read-exc", violations=[viol("read:" + r[1], "reading the transformed input raised %s (%s)" % (r[2], ts))])
        s1 = r[1]
    for tr in inmem:
        if tr[1] == "cube":
            s1 = fam.variant(s1, "rotate", tr[2])
        elif tr[1] == "ico":
            s1 = _rotate(s1, enum3d.icosahedral_rotations()[tr[2]])
        else:
            s1 = fam.variant(s1, "translate", tuple(float(v) for v in TRANSLATIONS[tr[2]]))
    out = []
    name = "+".join("%s:%s" % (x[0], x[1]) for x in ts)
    # residues of the transformed input must carry exactly the identities that were written (the renaming is known)
    want_ids = [i[1:] for i, _ in corpus.residues(tt)]
    got_ids = [(r_.chain, r_.number, r_.icode, r_.name) for r_ in s1.residues]
    if got_ids != want_ids:
        bad = next((g, w) for g, w in zip(got_ids + [None] * len(want_ids), want_ids + [None] * len(got_ids)) if g != w)
        out.append(viol("identity:%s" % "+".join(sorted(set(groups))), "%s: residue identities read differ from the ones written: got %s, written %s (input %s)" % (name, bad[0], bad[1], case.get("file") or "lattice")))
    r = observe(digest, s1)
    if r[0] == "exc":
        out.append(viol("transformed:%s:%s" % (groups[0], r[1]), "annotating the transformed input (%s) raised %s" % (name, r[2])))
    else:
        d1 = r[1]
        for k in d0:
            if not same_value(k, d0[k], d1[k], ts):
                a, b = d0[k], d1[k]
                if isinstance(a, list):
                    diff = [x for x in a if x not in b][:2], [x for x in b if x not in a][:2]
                else:
                    diff = (a[:200], b[:200])
                out.append(viol("differs:%s:%s" % ("+".join(sorted(set(groups))), k), "%s changes %s: original-only %s, transformed-only %s (input %s)" % (name, k, diff[0], diff[1], case.get("file") or "lattice"),
                                None, None))
                break
    nint = sum(len(d0[k]) for k in ("basePairs", "stackings", "baseRibose", "basePhosphate"))
    return dict(nontrivial=nint > 0, key=[case.get("file") or case["lattice"], case["ts"]], outcome="%s %s" % ("+".join(groups), "same" if not out else "DIFF"), violations=out)


def _rotate(structure, m):
    from rnapolis.tertiary import Atom, Residue3D, Structure3D

    M = np.array(m, float)
    res = []
    for r in structure.residues:
        atoms = []
        for a in r.atoms:
            x, y, z = M @ np.array([a.x, a.y, a.z])
            atoms.append(Atom(a.entity_id, a.label, a.auth, a.model, a.name, float(x), float(y), float(z), a.occupancy))
        res.append(Residue3D(r.label, r.auth, r.model, r.one_letter_name, tuple(atoms)))
    return Structure3D(res)
