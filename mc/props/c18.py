"""C18 - torsion angles follow the IUPAC convention in both implementations (form S on a lattice)."""
import itertools
import math
import os
import warnings

import numpy as np

from mc import corpus, enum3d, enumio
from mc.engine import observe, scratch_dir
from mc.props.common2d import viol
from mc.ref import reftorsion as rt

ID = "C18"
LEVEL = "exploration"
RULE = (
    "lattice: four points constructed (NeRF) from phi on a 5-degree grid over (-180,180] plus {+-0.001, +-90, +-179.999, 180} x bond lengths x bond "
    "angles x rigid motions (24 cube rotations + 3 icosahedral) x translations {0,(500,-500,250)}; both torsion functions must return phi (1e-9; 1e-6 "
    "modulo 2pi near +-pi), lie in (-pi,pi], keep the value under point-order reversal, negate it under mirroring and agree with each other. corpus: "
    "every backbone and chi torsion of corpus structures through tertiary.torsion_angle, Residue3D.chi, tertiary_v2.calculate_torsion_angle and "
    "Structure.torsion_angles against the reference formula; chi of the A-form acceptor stem of 1ehz must be anti. non-trivial = |sin phi| > 1e-3 "
    "(sign observable); distinct = (phi, lengths, angles, motion)."
)
ASSUMPTIONS = [
    "bond angles 20-160 degrees and bond lengths 0.8-2.5 A (non-degenerate inputs only)",
    "values within 1e-9 of -pi are treated as +pi (floating-point noise at the branch cut)",
]
_tier = ["quick"]


def worker_init(tier):
    _tier[0] = tier
    warnings.simplefilter("ignore")


def phis():
    vals = [float(d) for d in range(-175, 181, 5)] + [0.001, -0.001, 90.0, -90.0, 179.999, -179.999, 180.0]
    return sorted(set(vals))


def BOUNDS(tier):
    q = tier == "quick"
    return dict(phi_values=len(phis()), lengths="{0.8,2.5}^3" if q else "{0.8,1.5,2.5}^3", angles="{20,90,160}^2" if q else "{20,60,90,120,160}^2",
                motions="24 cube + 3 icosahedral", translations=2, corpus_files=len(CORPUS_Q if q else CORPUS_T))


CORPUS_Q = ["1HMH_1_E.cif", "1DFU_1_M-N.cif", "4WTI_1_T-P.cif", "1E7K_1_C.cif", "1A1T_1_B.cif", "6FC9.cif", "1ehz-assembly-1.cif"]
CORPUS_T = CORPUS_Q + ["1JJP.cif", "184D.cif", "8btk_B7.cif", "4qln.cif", "488d.pdb", "1a9n.cif", "6g90_1.cif"]


ENTITY_POLY_FILES = ["1ehz-assembly-1.cif", "1E7K_1_C.cif", "1A1T_1_B.cif", "1HMH_1_E.cif"]
# parent base of residue names (standard names and the modified nucleotides of the corpus whose glycosidic bond is the parent's); others: unknown
PARENT = {"A": "A", "C": "C", "G": "G", "U": "U", "DA": "A", "DC": "C", "DG": "G", "DT": "T", "DU": "U", "2MG": "G", "M2G": "G", "OMG": "G", "7MG": "G", "YYG": "G", "1MA": "A",
          "H2U": "U", "5MU": "U", "OMC": "C", "5MC": "C", "OMU": "U", "4SU": "U", "A23": "A", "GTP": "G", "5BU": "U"}


def families(tier):
    q = tier == "quick"
    return [
        ("lattice", lambda: (dict(phi=p) for p in phis()), 1),
        ("corpus", lambda: (dict(file=f) for f in (CORPUS_Q if q else CORPUS_T)), 1),
        ("corpus-pdb-translated", lambda: (dict(file=f, pdb_shift=list(sh)) for f in (CORPUS_Q[:4] if q else CORPUS_T) for sh in ((-250.0, -250.0, -250.0), (1500.0, 0.0, -180.0), (0.0, 2000.0, 0.0))), 1),
        # the same files with every 6th residue removed (chain breaks inside chains: several connected segments) and with one of the glycosidic atoms removed
        # from every 4th remaining residue (C4 / C2, N9 / N1, C1', O4' in turn): a torsion whose defining atoms are not all there, or whose residues are not
        # covalently linked, has no value
        ("corpus-thinned", lambda: (dict(file=f, thin=k) for f in (CORPUS_Q if q else CORPUS_T) for k in (0, 3)), 1),
        # single-chain files written with an _entity_poly category: both sequence items, or only pdbx_seq_one_letter_code (modified residues in parentheses,
        # no canonical item) - where the one-letter names come from must not change which atoms define chi
        ("corpus-entity-poly", lambda: (dict(file=f, entity_poly=k) for f in ENTITY_POLY_FILES for k in ("both", "noncan-only")), 1),
        ("corpus-icodes", lambda: (dict(file=f, relabel=k) for f in (CORPUS_Q[:4] if q else CORPUS_T) for k in ("icode-pairs", "icode-triples")), 1),
    ]


_motions = []


def motions():
    if not _motions:
        ico = enum3d.icosahedral_rotations()
        for m in enum3d.cube_rotations() + [ico[7], ico[23], ico[41]]:
            for t in ((0.0, 0.0, 0.0), (500.0, -500.0, 250.0)):
                _motions.append((np.array(m, float), np.array(t)))
    return _motions


def check_value(name, v, phi, out, ctx):
    """Returns 'ok' | 'neg' | 'bad'."""
    if not isinstance(v, (float, np.floating)) or math.isnan(v):
        out.append(viol("%s:not-a-number" % name, "%s returned %r for %s" % (name, v, ctx)))
        return "bad"
    # the float -math.pi (-3.141592653589793) is larger than the real number -pi, so it lies inside (-pi, pi]; any float beyond +-math.pi lies outside
    if abs(v) > math.pi:
        out.append(viol("%s:out-of-range" % name, "%s returned %r outside (-pi, pi] for %s" % (name, v, ctx)))
        return "bad"
    tol = 1e-6 if abs(abs(phi) - math.pi) < 1e-3 else 1e-9
    if rt.angdiff(v, phi) <= tol:
        return "ok"
    if rt.angdiff(v, -phi) <= tol:
        return "neg"
    out.append(viol("%s:wrong-value" % name, "%s returned %.9f, expected %.9f for %s" % (name, v, phi, ctx), v, phi))
    return "bad"


def run_lattice(case):
    from rnapolis.tertiary import calculate_torsion_angle_coords
    from rnapolis.tertiary_v2 import calculate_torsion_angle

    q = _tier[0] == "quick"
    lengths = (0.8, 2.5) if q else (0.8, 1.5, 2.5)
    angles = (20, 90, 160) if q else (20, 60, 90, 120, 160)
    phi = math.radians(case["phi"])
    out = []
    n = 0
    neg_v2 = 0
    disagree_neg = 0
    for l1, l2, l3 in itertools.product(lengths, repeat=3):
        for a1, a2 in itertools.product(angles, repeat=2):
            pts0 = rt.build(phi, l1, l2, l3, math.radians(a1), math.radians(a2))
            for M, T in motions():
                pts = [M @ p + T for p in pts0]
                ctx = "phi=%s lengths=%s angles=%s" % (case["phi"], (l1, l2, l3), (a1, a2))
                n += 1
                r1 = observe(calculate_torsion_angle_coords, *pts)
                r2 = observe(calculate_torsion_angle, *pts)
                vals = {}
                for name, r in (("v1", r1), ("v2", r2)):
                    if r[0] == "exc":
                        out.append(viol("%s:%s" % (name, r[1]), "%s raised %s for %s" % (name, r[2], ctx)))
                        continue
                    v = float(r[1])
                    vals[name] = v
                    k = check_value(name, v, phi, out, ctx)
                    if k == "neg":
                        if name == "v2":
                            neg_v2 += 1
                        else:
                            out.append(viol("v1:value==-phi", "tertiary.calculate_torsion_angle_coords returned -phi for %s" % ctx, v, phi))
                if len(vals) == 2 and rt.angdiff(vals["v1"], vals["v2"]) > 1e-6:
                    if rt.angdiff(vals["v1"], -vals["v2"]) <= 1e-6:
                        disagree_neg += 1
                    else:
                        out.append(viol("implementations-disagree:other", "v1=%.9f v2=%.9f for %s" % (vals["v1"], vals["v2"], ctx)))
                # reversal keeps, mirroring negates (checked on the unmoved points only, motions are covered above)
                if M is motions()[0][0] and T is motions()[0][1]:
                    for name, fn in (("v1", calculate_torsion_angle_coords), ("v2", calculate_torsion_angle)):
                        base = vals.get(name)
                        if base is None:
                            continue
                        rv = observe(fn, *pts[::-1])
                        if rv[0] == "ok" and rt.angdiff(float(rv[1]), base) > 1e-6:
                            out.append(viol("%s:reversal-changes-value" % name, "%s: reversed point order gives %.9f instead of %.9f (%s)" % (name, float(rv[1]), base, ctx)))
                        mir = [p * np.array([1.0, 1.0, -1.0]) for p in pts]
                        mv = observe(fn, *mir)
                        if mv[0] == "ok" and rt.angdiff(float(mv[1]), -base) > 1e-6:
                            out.append(viol("%s:mirror-does-not-negate" % name, "%s: mirrored points give %.9f instead of %.9f (%s)" % (name, float(mv[1]), -base, ctx)))
            if len(out) > 30:
                break
    observable = abs(math.sin(phi)) > 1e-3
    if neg_v2:
        out.append(viol("v2:value==-phi", "tertiary_v2.calculate_torsion_angle returned -phi on %d of %d lattice points with phi=%s" % (neg_v2, n, case["phi"]), "-phi", "phi"))
    if disagree_neg:
        out.append(viol("implementations-disagree:v2==-v1", "the two implementations return opposite signs on %d of %d lattice points with phi=%s" % (disagree_neg, n, case["phi"])))
    u = {}
    for v in out:
        u.setdefault(v["signature"], v)
    return dict(nontrivial=observable, outcome="lattice", violations=list(u.values()), evaluations=n, bulk_nontrivial=(n - 1) if observable else 0)


BACKBONE = {
    "alpha": [("O3'", -1), ("P", 0), ("O5'", 0), ("C5'", 0)],
    "beta": [("P", 0), ("O5'", 0), ("C5'", 0), ("C4'", 0)],
    "gamma": [("O5'", 0), ("C5'", 0), ("C4'", 0), ("C3'", 0)],
    "delta": [("C5'", 0), ("C4'", 0), ("C3'", 0), ("O3'", 0)],
    "epsilon": [("C4'", 0), ("C3'", 0), ("O3'", 0), ("P", 1)],
    "zeta": [("C3'", 0), ("O3'", 0), ("P", 1), ("O5'", 1)],
}


def run_corpus(case):
    from rnapolis import parser_v2, tertiary_v2
    from rnapolis.parser import read_3d_structure
    from rnapolis.tertiary import torsion_angle

    out = []
    name = case["file"]
    # single-conformer input (alternate locations reduced to A; of overlapping partial-occupancy copies of whole residues - 488d.pdb - the lower-occupancy
    # copy is dropped, as the residue-level reader does by design): both readers then hold the same residues
    from mc.props.c05 import abstract_of

    t = [dict(a) for a in abstract_of(dict(file=name))]
    if "thin" in case:
        res = corpus.residues(t)
        keep = []
        k = 0
        for idx, (ident, atoms) in enumerate(res):
            if idx % 6 == (2 + case["thin"]) % 6:
                continue  # residue removed: its neighbours are no longer linked
            k += 1
            if k % 4 == 0:
                names = {a["name"] for a in atoms}
                drop = [("C4" if "N9" in names else "C2"), ("N9" if "N9" in names else "N1"), "C1'", "O4'"][(k // 4 + case["thin"]) % 4]
                atoms = [a for a in atoms if a["name"] != drop]
            keep.extend(atoms)
        t = keep
        name = name + "+thinned%d" % case["thin"]
    if case.get("relabel"):
        # order-preserving relabeling: consecutive residues share a number and are told apart by insertion code only (10, 10A, 10B, 11, ...)
        from mc.props.c05 import apply_abstract

        t = apply_abstract([dict(a, model=1) for a in t], ("relabel", case["relabel"], None))
        name = name + "+" + case["relabel"]
    extra = None
    if case.get("entity_poly"):
        # nucleotides of the first chain only (one entity, label_seq_id 1..n in file order)
        first = t[0]["chain"]
        res = [(ident, atoms) for ident, atoms in corpus.residues([a for a in t if a["chain"] == first]) if any(a["name"] == "C1'" for a in atoms)]
        t = [a for _, atoms in res for a in atoms]
        names = [ident[4] for ident, _ in res]
        can = "".join(PARENT.get(nm, "N") for nm in names)
        noncan = "".join(nm if len(nm) == 1 else "(%s)" % nm for nm in names)
        V = lambda x: ("v", x)
        if case["entity_poly"] == "both":
            extra = {"entity_poly": (["entity_id", "type", "pdbx_seq_one_letter_code", "pdbx_seq_one_letter_code_can"], [(V("1"), V("polyribonucleotide"), V(noncan), V(can))])}
        else:
            extra = {"entity_poly": (["entity_id", "type", "pdbx_seq_one_letter_code"], [(V("1"), V("polyribonucleotide"), V(noncan))])}
        name = name + "+entity_poly:" + case["entity_poly"]
    text = enumio.emit_cif([dict(a, model=1) for a in t], label_differs=bool(case.get("relabel") or case.get("entity_poly")), extra_categories=extra)
    path = os.path.join(scratch_dir(), "c18.cif")
    with open(path, "w") as f:
        f.write(text)
    with open(path) as f:
        s = read_3d_structure(f, None)
    n = 0
    neg = 0
    residues = s.residues
    for i, r in enumerate(residues):
        for an, spec in BACKBONE.items():
            atoms = []
            for nm, off in spec:
                j = i + off
                if not (0 <= j < len(residues)) or residues[j].chain != r.chain:
                    atoms = None
                    break
                a = residues[j].find_atom(nm)
                if a is None:
                    atoms = None
                    break
                atoms.append(a)
            if not atoms:
                continue
            ref = rt.torsion(*[a.coordinates for a in atoms])
            if abs(math.sin(ref)) < 1e-6:
                continue
            n += 1
            v1 = observe(torsion_angle, *atoms)
            if v1[0] == "exc":
                out.append(viol("corpus:v1:" + v1[1], "torsion_angle raised " + v1[2]))
            elif rt.angdiff(float(v1[1]), ref) > 1e-9:
                out.append(viol("corpus:v1:differs-from-reference", "%s %s of %s: %.9f vs %.9f" % (name, an, r.full_name, float(v1[1]), ref)))
            v2 = observe(tertiary_v2.calculate_torsion_angle, *[a.coordinates for a in atoms])
            if v2[0] == "exc":
                out.append(viol("corpus:v2:" + v2[1], "v2 torsion raised " + v2[2]))
            elif rt.angdiff(float(v2[1]), ref) > 1e-9:
                if rt.angdiff(float(v2[1]), -ref) <= 1e-9:
                    neg += 1
                else:
                    out.append(viol("corpus:v2:wrong-value", "%s %s of %s: %.9f vs %.9f" % (name, an, r.full_name, float(v2[1]), ref)))
        # chi: O4'-C1'-N9-C4 for purines, O4'-C1'-N1-C2 for pyrimidines; a residue whose one-letter name is not A/C/G/U/T
        # is a purine exactly when it has an N9 atom. Checked for the name as read and for the unknown names N, n and ?.
        from rnapolis.tertiary import Residue3D

        for letter in (r.one_letter_name, "N", "n", "?"):
            rr = r if letter == r.one_letter_name else Residue3D(r.label, r.auth, r.model, letter, r.atoms)
            true = PARENT.get(r.name) if letter == r.one_letter_name else None
            if true is not None:
                # a residue of known chemistry: chi is the torsion of ITS glycosidic bond, whatever one-letter name the reader arrived at
                base = ("N9", "C4") if true in "AG" else ("N1", "C2")
            elif letter.upper() in "AG":
                base = ("N9", "C4")
            elif letter.upper() in "CUT":
                base = ("N1", "C2")
            else:
                base = ("N9", "C4") if (rr.find_atom("N9") is not None and rr.find_atom("C4") is not None) else ("N1", "C2")
            atoms = [rr.find_atom(x) for x in ("O4'", "C1'") + base]
            c = observe(lambda: rr.chi)
            if c[0] == "exc":
                out.append(viol("corpus:chi:" + c[1], "chi raised " + c[2]))
                continue
            if not all(a is not None for a in atoms) and letter.upper() in "ACGUT" and not math.isnan(c[1]):
                # for a residue of known type chi is the torsion of exactly these four atoms: when one of them is absent there is no value
                out.append(viol("corpus:chi:value-without-its-atoms", "%s chi of %s (one-letter %r) is %.6f although %s is absent" % (
                    name, r.full_name, letter, c[1], [x for x, a in zip(("O4'", "C1'") + base, atoms) if a is None]), c[1], "nan"))
            if all(a is not None for a in atoms):
                ref = rt.torsion(*[a.coordinates for a in atoms])
                n += 1
                if math.isnan(c[1]) or rt.angdiff(c[1], ref) > 1e-9:
                    kind = "known-letter" if letter.upper() in "ACGUT" else "unknown-letter"
                    out.append(viol("corpus:chi:differs-from-reference:" + kind, "%s chi of %s read as one-letter %r: %.9f vs reference %.9f (%s)" % (name, r.full_name, letter, c[1], ref, "-".join(("O4'", "C1'") + base))))
    # the annotation pipeline (incl. inter-stem parameters) works on the same objects: torsions asked afterwards must not have moved
    if not case.get("relabel"):
        from rnapolis.annotator import extract_secondary_structure

        before = [(r.full_name, r.chi) for r in residues]
        ann = observe(extract_secondary_structure, s, None, False, False)
        if ann[0] == "ok":
            after = [(r.full_name, r.chi) for r in s.residues]
            fresh = []
            with open(path) as f:
                s2 = read_3d_structure(f, None)
            ann2 = observe(extract_secondary_structure, s2, None, False, False)
            fresh = [(r.full_name, r.chi) for r in s2.residues]  # first asked after the annotation
            for lab, lst in (("re-asked", after), ("first-asked", fresh)):
                bad = [(a[0], a[1], b[1]) for a, b in zip(before, lst) if not (a[1] == b[1] or (math.isnan(a[1]) and math.isnan(b[1])))]
                if bad:
                    out.append(viol("corpus:chi-changes-after-annotation:" + lab, "%s: chi of %d residue(s) differs once the structure has been annotated (%s): e.g. %s %.6f -> %.6f" % (name, len(bad), lab, bad[0][0], bad[0][1], bad[0][2])))
    if neg:
        out.append(viol("corpus:v2==-reference", "tertiary_v2.calculate_torsion_angle returned the negated reference value for %d backbone torsions of %s" % (neg, name)))
    # v2 torsion table
    df = parser_v2.parse_cif_atoms(text)
    ta = observe(lambda: tertiary_v2.Structure(df).torsion_angles)
    if ta[0] == "exc":
        out.append(viol("corpus:v2-table:" + ta[1], "Structure.torsion_angles raised " + ta[2]))
    else:
        v1chi = {(r.chain, r.number, r.icode): r.chi for r in residues if not math.isnan(r.chi)}
        tneg = tbad = 0
        stem_syn = []
        for _, row in ta[1].iterrows():
            chi = row["chi"]
            if chi is None or (isinstance(chi, float) and math.isnan(chi)):
                continue
            ic = row["insertion_code"]
            ic = None if ic is None or (isinstance(ic, float) and math.isnan(ic)) else ic
            key = (row["chain_id"], int(row["residue_number"]), ic)
            if key in v1chi and abs(math.sin(v1chi[key])) > 1e-6:
                n += 1
                if rt.angdiff(float(chi), v1chi[key]) > 1e-9:
                    if rt.angdiff(float(chi), -v1chi[key]) <= 1e-9:
                        tneg += 1
                    else:
                        tbad += 1
            if name.startswith("1ehz") and key[0] == "A" and (1 <= key[1] <= 7 or 66 <= key[1] <= 72):
                deg = math.degrees(float(chi))
                if not (-180.0 <= deg <= -110.0):
                    stem_syn.append((key, round(deg, 1)))
        # backbone columns of the table against the reference formula on the same atoms (neighbours = file-adjacent residues of the chain)
        pos = {(r.chain, r.number, r.icode): i for i, r in enumerate(residues)}
        bneg = bbad = 0
        first_bad = None
        for _, row in ta[1].iterrows():
            ic = row["insertion_code"]
            ic = None if ic is None or (isinstance(ic, float) and math.isnan(ic)) else ic
            key = (row["chain_id"], int(row["residue_number"]), ic)
            if key not in pos:
                bbad += 1
                first_bad = first_bad or ("row for unknown residue", key)
                continue
            i = pos[key]
            for an, spec in BACKBONE.items():
                val = row[an]
                if val is None or (isinstance(val, float) and math.isnan(val)):
                    continue
                pts = []
                for nm, off in spec:
                    j = i + off
                    a = residues[j].find_atom(nm) if 0 <= j < len(residues) and residues[j].chain == key[0] else None
                    if a is None:
                        pts = None
                        break
                    pts.append(a.coordinates)
                if not pts:
                    bbad += 1
                    first_bad = first_bad or ("%s listed although its atoms are not all present" % an, key)
                    continue
                # a torsion that reaches into the neighbouring residue exists only across a covalent link (O3'-P below 2.4 A; undecided within 1e-6)
                offs = sorted({off for _, off in spec})
                linked = True
                for lo in range(offs[0], offs[-1]):
                    o3, pp = residues[i + lo].find_atom("O3'"), residues[i + lo + 1].find_atom("P")
                    d = None if o3 is None or pp is None else float(np.linalg.norm(o3.coordinates - pp.coordinates))
                    if d is None or d >= 2.4 + 1e-6:
                        linked = False
                    elif d > 2.4 - 1e-6:
                        linked = None
                        break
                if linked is None:
                    continue
                if linked is False:
                    bbad += 1
                    first_bad = first_bad or ("%s listed across a chain break (the residues are not linked)" % an, key)
                    continue
                ref = rt.torsion(*pts)
                if abs(math.sin(ref)) < 1e-6:
                    continue
                n += 1
                if rt.angdiff(float(val), ref) > 1e-9:
                    if rt.angdiff(float(val), -ref) <= 1e-9:
                        bneg += 1
                    else:
                        bbad += 1
                        first_bad = first_bad or ("%s = %.6f, the atoms of the residue give %.6f" % (an, float(val), ref), key)
        if bbad:
            out.append(viol("corpus:v2-table:backbone-wrong", "%d backbone values of the v2 torsion table are not the dihedral of the residue's own atoms (%s): %s" % (bbad, name, first_bad)))
        if bneg:
            out.append(viol("corpus:v2-table:backbone==-reference", "%d backbone values of the v2 torsion table are the negated reference value (%s)" % (bneg, name)))
        if tbad:
            out.append(viol("corpus:v2-table:chi-wrong", "%d chi values of the v2 torsion table differ from Residue3D.chi by more than sign" % tbad))
        if tneg:
            out.append(viol("corpus:v2-table:chi==-chi(v1)", "%d chi values of the v2 torsion table are the negated Residue3D.chi (%s)" % (tneg, name)))
        if stem_syn:
            out.append(viol("corpus:v2-table:A-form-chi-not-anti", "A-form acceptor stem of 1ehz: v2 table chi is not anti: %s" % (stem_syn[:4],)))
    if name.startswith("1ehz"):
        bad = []
        for r in residues:
            if r.chain == "A" and (1 <= r.number <= 7 or 66 <= r.number <= 72) and not math.isnan(r.chi):
                deg = math.degrees(r.chi)
                if not (-180.0 <= deg <= -110.0) or str(r.chi_class).split(".")[-1] != "anti":
                    bad.append((r.full_name, round(deg, 1)))
        if bad:
            out.append(viol("corpus:v1:A-form-chi-not-anti", "A-form acceptor stem of 1ehz: Residue3D.chi is not anti: %s" % (bad[:4],)))
    return dict(nontrivial=True, outcome="corpus", violations=out, evaluations=max(n, 1), bulk_nontrivial=max(n - 1, 0))


def run_corpus_pdb(case):
    """The structure written as PDB after a translation that fills the 8-column coordinate fields (x <= -100, >= 1000): chi and the backbone torsions of the
    structure read back must be the dihedrals of the WRITTEN coordinates (reference computed from the abstract table, not from what the reader returned)."""
    from rnapolis.parser import read_3d_structure
    from rnapolis.tertiary import torsion_angle

    out = []
    name = case["file"]
    from mc.props.c05 import abstract_of

    t = [dict(a, model=1) for a in abstract_of(dict(file=name))]  # single-conformer input, see run_corpus
    for a in t:
        a["altloc"] = None
        for k, d in zip("xyz", case["pdb_shift"]):
            a[k] = "%.3f" % (float(a[k]) + d)
    for k, a in enumerate(t):
        a["serial"] = k + 1
    if not corpus.pdb_expressible(t):
        return dict(nontrivial=False, outcome="not-pdb-expressible", violations=[])
    path = os.path.join(scratch_dir(), "c18.pdb")
    with open(path, "w") as f:
        f.write(enumio.emit_pdb(t))
    with open(path) as f:
        r = observe(read_3d_structure, f, None)
    if r[0] == "exc":
        return dict(nontrivial=True, outcome="read-exc", violations=[viol("corpus-pdb:read:" + r[1], "reading the translated PDB text raised " + r[2])])
    written = {}
    for a in t:
        written.setdefault((a["chain"], a["resseq"], a["icode"]), {})[a["name"]] = np.array([float(a["x"]), float(a["y"]), float(a["z"])])
    n = bad = 0
    first = None
    residues = r[1].residues
    for i, res in enumerate(residues):
        w = written.get((res.chain, res.number, res.icode))
        if w is None:
            continue
        letter = res.one_letter_name.upper()
        base = ("N9", "C4") if letter in "AG" else (("N1", "C2") if letter in "CUT" else None)
        if base and all(x in w for x in ("O4'", "C1'") + base):
            ref = rt.torsion(*[w[x] for x in ("O4'", "C1'") + base])
            c = observe(lambda: res.chi)
            n += 1
            if c[0] == "exc" or math.isnan(c[1]) or rt.angdiff(c[1], ref) > 1e-6:
                bad += 1
                first = first or "chi of %s: %s, the written coordinates give %.6f" % (res.full_name, c[1] if c[0] == "ok" else c[2], ref)
        for an, spec in BACKBONE.items():
            pts, atoms = [], []
            for nm, off in spec:
                j = i + off
                if not (0 <= j < len(residues)) or residues[j].chain != res.chain:
                    pts = None
                    break
                wj = written.get((residues[j].chain, residues[j].number, residues[j].icode), {})
                aj = residues[j].find_atom(nm)
                if nm not in wj or aj is None:
                    pts = None
                    break
                pts.append(wj[nm])
                atoms.append(aj)
            if not pts:
                continue
            ref = rt.torsion(*pts)
            if abs(math.sin(ref)) < 1e-6:
                continue
            v1 = observe(torsion_angle, *atoms)
            n += 1
            if v1[0] == "exc" or rt.angdiff(float(v1[1]), ref) > 1e-6:
                bad += 1
                first = first or "%s of %s: %s, the written coordinates give %.6f" % (an, res.full_name, v1[1] if v1[0] == "ok" else v1[2], ref)
    if bad:
        out.append(viol("corpus-pdb:torsion-differs-from-written-coordinates", "%s translated by %s and written as PDB: %d of %d torsions differ from the dihedrals of the written coordinates, e.g. %s"
                        % (name, case["pdb_shift"], bad, n, first)))
    return dict(nontrivial=True, outcome="corpus-pdb", violations=out, evaluations=max(n, 1), bulk_nontrivial=max(n - 1, 0))


def run_case(case):
    if "phi" in case:
        return run_lattice(case)
    if "pdb_shift" in case:
        return run_corpus_pdb(case)
    return run_corpus(case)
