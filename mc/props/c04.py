"""C04 - stacking annotation equals its geometric definition (form S)."""
from mc.engine import observe
from mc.props import ann_common as ac
from mc.props import ann_families as fam
from mc.props.common2d import viol
from mc.ref import refann

ID = "C04"
LEVEL = "exploration"
RULE = (
    "stacking lattice: two template nucleotides, the second placed at rise 2.8..7.0 A (8 steps, both faces) x lateral offset 0..6 A x bearing x tilt "
    "0..60 degrees (34 and 36 bracket the 35-degree limit) x twist x face flip, plus the coplanar base-pair lattice, plus every corpus structure x "
    "{identity, each nucleotide removed, each atom name removed, fixed jitter fields, 23 cube rotations}; two-sided oracle D <= reported <= U "
    "(D: centroid distance <= 6, normals within 35 degrees of (anti)parallel, centroid vector (later->earlier residue) within 45 degrees of a normal; U: "
    "same with the undirected vector), label group (upward/downward vs inward/outward) from the sign of the normals' dot product, each pair once "
    "with the lower residue first; pairs with a decision quantity within 1e-6 of its threshold are undecided. non-trivial = a stacking was "
    "reported or demanded; distinct = distinct structure."
)
ASSUMPTIONS = [
    "the property does not fix the direction of the centroid-to-centroid vector; anything between the directed (D) and undirected (U) reading is accepted",
    "which of upward/downward (inward/outward) is used is not prescribed and not checked",
    "base normals and centroids use the atoms named in the anchors",
]
G3_Q = ["1HMH_1_E.cif", "6INQ.cif", "1DFU_1_M-N.cif", "4WTI_1_T-P.cif", "1E7K_1_C.cif", "1E7K_1_C_modified.cif", "1A1T_1_B.cif", "1JJP.cif"]
G3_T = G3_Q + ["184D.cif", "6FC9.cif", "4gqj-assembly1.cif", "1ATO.pdb", "6RS3.cif", "2HY9.cif", "488d.pdb", "q-ugg-5k-salt_400-500ns_frame1065.pdb", "1ehz-assembly-1.cif"]


def BOUNDS(tier):
    q = tier == "quick"
    return dict(stack_lattice="%d base combinations x 8 rises x 2 sides x %d lateral offsets x %d tilts x %d twists x bearings x 2 faces" % ((5, 5, 5, 6) if q else (15, 7, 8, 12)),
                pair_lattice="every %s point of the C03 lattice" % ("4th" if q else "2nd"), G3_files=len(G3_Q if q else G3_T))


def families(tier):
    q = tier == "quick"
    return [
        ("stack-lattice", lambda: fam.g1_stack(tier), 64),
        ("pair-lattice", lambda: (c for k, c in enumerate(fam.g1_pairs("quick")) if k % (4 if q else 2) == 0), 64),
        ("G3-corpus", lambda: fam.corpus_cases(tier, G3_Q, G3_T), 16),
        ("near-threshold", lambda: fam.near_threshold_cases(), 16),
        ("composed", lambda: fam.composed_cases(tier), 8),  # several independent placements in one structure (chains A, B, C; also listed in reverse chain order)
        # one structure object with two models of different geometry, queried model 1, model 2, model 1 again: each answer is judged against its own model
        ("two-models", lambda: fam.two_model_cases(fam.g1_stack(tier), 37 if q else 11, 5), 8),
    ]


def run_two_models(case):
    from rnapolis.annotator import find_stackings

    out = []
    s = fam.two_model_structure(case)
    mn0 = tuple(case.get("model_numbers", (1, 2)))
    refs = {mn0[0]: refann.from_structure3d(fam.structure_of(case["m1"])), mn0[1]: refann.from_structure3d(fam.structure_of(dict(case["m2"], idmode=case["m1"].get("idmode", 0))))}
    tot = [0, 0, 0]
    seen = []
    mn = tuple(case.get("model_numbers", (1, 2)))
    for step, m in enumerate((mn[0], mn[1], mn[0])):
        r = observe(find_stackings, s, m)
        if r[0] == "exc":
            out.append(viol("find_stackings:model:" + r[1], "find_stackings(structure, %d) raised %s" % (m, r[2])))
            continue
        got = [(st.nt1.auth.number, st.nt1.auth.icode, st.nt2.auth.number, st.nt2.auth.icode, st.topology.value if st.topology else None) for st in r[1]]
        seen.append(got)
        res = ac.judge_stackings(refs[m], r[1], out, ":model%d-call%d" % (1 if m == mn0[0] else 2, step + 1))
        for k in range(3):
            tot[k] += res[k]
    if len(seen) == 3 and seen[0] != seen[2]:
        out.append(viol("stacking:model-answer-changes", "find_stackings(structure, first model) answers differently after the second model was queried on the same object", seen[2], seen[0]))
    u = {}
    for v in out:
        u.setdefault(v["signature"].split(":model")[0] + (":other-model" if ":model" in v["signature"] else ""), v)
    return dict(nontrivial=bool(tot[0] or tot[1]), outcome="two-models reported=%d demanded=%d" % (min(tot[0], 3), min(tot[1], 3)), violations=list(u.values()), undecided=bool(tot[2]))


def run_case(case):
    from rnapolis.annotator import find_stackings

    if case["g"] == 4:
        return run_two_models(case)
    out = []
    s = fam.corpus_variant_structure(case) if case["g"] == 3 else fam.structure_of(case)
    r = observe(find_stackings, s)
    if r[0] == "exc":
        return dict(nontrivial=True, outcome="exc", violations=[viol("find_stackings:" + r[1], "find_stackings raised " + r[2])])
    ref = refann.from_structure3d(s)
    nrep, ndem, und = ac.judge_stackings(ref, r[1], out)
    u = {}
    for v in out:
        u.setdefault(v["signature"], v)
    tops = sorted({st.topology.value for st in r[1] if st.topology})
    return dict(nontrivial=bool(nrep or ndem), outcome="reported=%d demanded=%d %s" % (min(nrep, 3), min(ndem, 3), "/".join(tops)), violations=list(u.values()), undecided=bool(und),
                extra=dict(reported=nrep, demanded=ndem, undecided_pairs=und))
