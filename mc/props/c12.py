"""C12 - secondary-structure objects are pure (form H: explicit-state BFS over call histories on live objects)."""
import collections
import copy
import hashlib
import json

from mc import enum2d
from mc.engine import observe
from mc.props.c07 import elements_as_tuples
from mc.props.common2d import seq_of, viol
from mc.ref import ref2d

ID = "C12"
LEVEL = "model_checking"
RULE = (
    "explicit-state breadth-first search: a state is a graph of live BpSeq objects (root + up to 2 derived objects), canonicalised as "
    "(entries, pairs dict, populated cache slots with digests of the cached values, identity-sharing pattern of Entry objects); "
    "a transition is one public call (str, pairs, sequence, ==, fcfs, dot_bracket, elements, all_dot_brackets, without_pseudoknots, "
    "without_isolated) on one object of the graph; every call's answer is compared with the same call on a fresh object built from the "
    "reference value, and after every call the text/pairs/entries of EVERY object in the graph must still equal their reference values. "
    "Roots: every pairing on 1..N (M) and chord diagrams. non-trivial = root has an isolated pair or a pseudoknot (so derivations differ "
    "from the receiver); distinct = distinct root."
)
ASSUMPTIONS = [
    "the canonical form determines all futures: every method is a deterministic function of entries + caches (CBC is deterministic for a fixed model)",
    "states are copied with deepcopy of the whole graph (preserves aliasing) instead of replaying histories; deepcopy is trusted",
    "all_dot_brackets answers are compared as sorted lists (list order is C14's subject)",
]
OPS = ["str", "pairs", "sequence", "eq_fresh", "fcfs", "dot_bracket", "elements", "all_dot_brackets", "without_pseudoknots", "without_isolated"]
MAXOBJ = 3
_tier = ["quick"]


def worker_init(tier):
    _tier[0] = tier


def BOUNDS(tier):
    q = tier == "quick"
    return dict(roots="M(N<=%d) + D(K<=%d)" % ((6, 2) if q else (7, 3)), depth=4 if q else 8, objects_in_graph=MAXOBJ, alphabet=OPS)


def families(tier):
    q = tier == "quick"
    return [
        ("twins", lambda: _twins(tier), 1),
        # dozens and hundreds of stems around a small knot: the derivations and the texts, one call each
        ("many-stems", lambda: ({**c, "depth": 1, "ops": ["without_pseudoknots", "without_isolated", "dot_bracket", "str"]}
                                for c in __import__("mc.props.c02", fromlist=["x"])._many_stems(tier) if c["n"] > 150), 1),
        # crossing stems of 100-300 base pairs (more than 256 bracket characters of one kind): the derivations and the texts, one call each
        ("long-stems", lambda: ({**c, "depth": 2, "ops": ["without_pseudoknots", "without_isolated", "dot_bracket", "str"]} for c in __import__("mc.props.c02", fromlist=["x"])._long_stems(tier)), 1),
        ("M", lambda: enum2d.M(6 if q else 7), 1),
        ("D", lambda: enum2d.D(2 if q else 3), 1),
        # K mutually crossing stems: the only family that reaches bracket levels beyond '{' (every level up to the 12th / 16th)
        ("ladders-bfs", lambda: ({**enum2d.ladder(K, gap=g), "ladder": K, "depth": 3} for K in range(3, 7) for g in (0, 1)), 1),
        ("ladders-derivations", lambda: ({**enum2d.ladder(K, lengths=[1 + (i % 2) for i in range(K)], gap=g), "ladder": K, "depth": 1, "ops": ["without_pseudoknots", "without_isolated", "str", "dot_bracket"]}
                                         for K in range(7, (13 if q else 17)) for g in (0, 1)), 1),
        # derived objects as receivers: every chord diagram of 3-4 stems of lengths {1,2} (isolated pairs crossing longer stems - removing them changes the
        # levels of what remains), short histories over the derivations and the answers that depend on the level assignment
        ("D-derivations", lambda: ({**c, "depth": 2, "ops": ["without_isolated", "without_pseudoknots", "dot_bracket", "elements"] if not q else ["without_isolated", "without_pseudoknots", "dot_bracket"]}
                                   for c in enum2d.D(4, kmin=3, gapvals=(0,) if q else (0, 1))), 1),  # thorough: both gap values and 'elements'; depth 3 there cost most of an hour
    ]


def _twins(tier):
    """Two independent objects with the same pairing in one process - other letters / one more unpaired nucleotide - with the calls on them interleaved:
    anything remembered process-wide about a pairing must not leak from one object into the answers of the other."""
    q = tier == "quick"
    ops = ["dot_bracket", "fcfs", "all_dot_brackets", "without_pseudoknots", "without_isolated", "elements", "str"]
    for c in list(enum2d.M(6 if q else 7, nmin=4)) + list(enum2d.D(2 if q else 3)):
        stems = ref2d.stems_of(c["pairs"])
        g = ref2d.stem_graph(stems)
        if not any(g[v] for v in g):
            continue
        for kind in ("letters", "longer", "exotic"):
            yield {**c, "twin": kind, "depth": 2, "ops": ops}  # depth 3 on the thorough roots costs more than half an hour


def fresh(n, seq, pairs):
    from rnapolis.common import BpSeq

    return BpSeq.from_string(enum2d.bpseq_text(dict(n=n, pairs=[list(p) for p in pairs], seq=seq)))


def answer(op, obj, n, seq, ref):
    if op == "str":
        return str(obj)
    if op == "pairs":
        return sorted(obj.pairs.items())
    if op == "sequence":
        return obj.sequence
    if op == "eq_fresh":
        return bool(obj == fresh(n, seq, ref))
    if op == "fcfs":
        x = obj.fcfs
        return [x.sequence, x.structure]
    if op == "dot_bracket":
        x = obj.dot_bracket
        return [x.sequence, x.structure]
    if op == "elements":
        return json.loads(json.dumps(elements_as_tuples(obj.elements)))
    if op == "all_dot_brackets":
        return sorted([x.sequence, x.structure] for x in obj.all_dot_brackets)
    raise KeyError(op)


def canon(graph):
    ids = {}
    parts = []
    objids = {}
    for obj in graph:
        if id(obj) in objids:
            parts.append(("alias", objids[id(obj)]))
            continue
        objids[id(obj)] = len(objids)
        ents = tuple((e.index_, e.sequence, e.pair, ids.setdefault(id(e), len(ids))) for e in obj.entries)
        caches = []
        for k in sorted(obj.__dict__):
            if k in ("entries", "pairs"):
                continue
            v = obj.__dict__[k]
            caches.append((k, _vdigest(v, ids)))
        parts.append((ents, tuple(sorted(obj.pairs.items())), tuple(caches)))
    return hashlib.blake2b(repr(parts).encode(), digest_size=12).digest()


def _vdigest(v, ids):
    # cached values: DotBracket, lists of DotBracket, element tuples, lists of lists of Entry (aliasing matters), region tuples
    from rnapolis.common import Entry

    def walk(x):
        if isinstance(x, Entry):
            return ("E", x.index_, x.sequence, x.pair, ids.setdefault(id(x), len(ids)))
        if isinstance(x, (list, tuple)):
            return tuple(walk(y) for y in x)
        if isinstance(x, (str, int, float, bool)) or x is None:
            return x
        if hasattr(x, "__dict__"):
            return (type(x).__name__,) + tuple((k, walk(val)) for k, val in sorted(vars(x).items()))
        return repr(x)

    return hashlib.blake2b(repr(walk(v)).encode(), digest_size=8).hexdigest()


def run_case(case):
    n0 = case["n"]
    seq0 = seq_of(case)
    root_pairs = tuple(sorted(tuple(p) for p in case["pairs"]))
    root_ref = (n0, seq0, root_pairs)
    depth_max = case.get("depth") or (4 if _tier[0] == "quick" else 8)
    ops_here = case.get("ops") or OPS
    out = []
    sigs = set()

    def add(sig, msg, obs=None, exp=None, hist=None):
        if sig in sigs:
            return
        sigs.add(sig)
        out.append(viol(sig, msg + " | history: %s" % (hist,), obs, exp))

    # reference values, computed on fresh objects / by the reference model
    exp_cache = {}

    def expected(op, ref):
        # a reference is (length, sequence, pairs): a derived object keeps the length and sequence of its receiver
        key = (op, ref)
        n, seq, prs = ref
        if key not in exp_cache:
            if op == "without_isolated":
                keep = set()
                for i, j, L in ref2d.stems_of(prs):
                    if L >= 2:
                        keep.update((i + t, j - t) for t in range(L))
                exp_cache[key] = (n, seq, tuple(sorted(keep)))
            elif op == "without_pseudoknots":
                r = observe(lambda: fresh(n, seq, prs).dot_bracket)
                if r[0] == "exc":
                    exp_cache[key] = None
                else:
                    dec, _ = ref2d.decode(r[1].structure)
                    if set(dec) != set(prs):
                        # the notation is not an encoding of the pairs (reported where it is asked for): no reference for the derivation
                        exp_cache[key] = None
                    else:
                        exp_cache[key] = (n, seq, tuple(sorted(p for p, lev in dec.items() if lev == 0)))
            else:
                r = observe(lambda: answer(op, fresh(n, seq, prs), n, seq, prs))
                exp_cache[key] = r
        return exp_cache[key]

    def text_of(ref):
        return enum2d.bpseq_text(dict(n=ref[0], pairs=[list(p) for p in ref[2]], seq=ref[1]))

    def pairs_of(ref):
        d = {}
        for i, j in ref[2]:
            d[i] = j
            d[j] = i
        return d

    def invariant(graph, refs, hist):
        for k, (obj, ref) in enumerate(zip(graph, refs)):
            if str(obj) != text_of(ref):
                add("mutated:text:%s" % _last_deriv(hist), "BPSEQ text of object %d changed" % k, str(obj), text_of(ref), hist)
            elif obj.pairs != pairs_of(ref):
                add("mutated:pairs:%s" % _last_deriv(hist), "pairs of object %d changed" % k, sorted(obj.pairs.items()), sorted(pairs_of(ref).items()), hist)

    g0 = [fresh(*root_ref)]
    refs0 = [root_ref]
    if case.get("twin"):
        # a second, independent object in the same process: the same pairing under other letters, and under one more (unpaired) nucleotide
        if case["twin"] == "letters":
            tw = (n0, seq_of(case, 1), root_pairs)
        elif case["twin"] == "exotic":
            tw = (n0, enum2d.exotic(dict(n=n0))["seq"], root_pairs)  # letters a BPSEQ may carry besides ACGU (X, P, I, ?, n, N, t, m)
        else:
            tw = (n0 + 1, seq_of(dict(n=n0 + 1), 2), root_pairs)
        g0.append(fresh(*tw))
        refs0.append(tw)
    seen = {canon(g0)}
    frontier = collections.deque([(g0, refs0, [])])
    states = 1
    transitions = 0
    maxdepth = 0
    answers = set()
    while frontier:
        graph, refs, hist = frontier.popleft()
        if len(hist) >= depth_max:
            continue
        for k in range(len(graph)):
            for op in ops_here:
                g2 = copy.deepcopy(graph)
                obj = g2[k]
                ref = refs[k]
                h2 = hist + [[k, op]]
                refs2 = refs
                transitions += 1
                nsig = len(sigs)
                if op in ("without_isolated", "without_pseudoknots"):
                    r = observe(getattr(obj, op))
                    eref = expected(op, ref)
                    if r[0] == "exc":
                        add("%s:%s" % (op, r[1]), "%s raised %s" % (op, r[2]), r[2], "returns", h2)
                    elif eref is not None:
                        res = r[1]
                        if str(res) != text_of(eref) or res.pairs != pairs_of(eref):
                            add("%s:wrong-result" % op, "%s returned other pairs than the reference" % op, str(res), text_of(eref), h2)
                        elif not any(res is o for o in g2) and len(g2) < MAXOBJ + (1 if case.get("twin") else 0):
                            g2 = g2 + [res]
                            refs2 = refs + [eref]
                        answers.add((op, eref))
                else:
                    n, seq = ref[0], ref[1]
                    r = observe(answer, op, obj, n, seq, ref[2])
                    e = expected(op, ref)
                    if r[0] == "exc":
                        if e[0] != "exc":
                            add("%s:%s" % (op, r[1]), "%s raised %s on a live object but not on a fresh one" % (op, r[2]), r[2], "as fresh", h2)
                    elif e[0] == "ok" and r[1] != e[1]:
                        add("answer-differs:%s:%s" % (op, _last_deriv(hist)), "%s answers differently from a fresh copy" % op, r[1], e[1], h2)
                    elif r[0] == "ok" and op in ("fcfs", "dot_bracket", "all_dot_brackets"):
                        # a fresh copy made in the same process would share any process-wide state: the answer must also be right in itself
                        for sq, st in ([r[1]] if op != "all_dot_brackets" else r[1]):
                            probs = ref2d.check_encoding(n, seq, [list(p) for p in ref[2]], sq, st)
                            if probs:
                                add("answer-wrong-in-itself:%s" % op, "%s of an object with sequence %s and pairs %s is not an encoding of it: %s" % (op, seq, list(ref[2]), "; ".join(probs)[:200]), [sq, st], None, h2)
                                break
                    answers.add((op, repr(r[1:])[:200]))
                nbefore = len(out)
                invariant(g2, refs2, h2)
                if len(out) > nbefore or len(sigs) > nsig:
                    continue  # do not explore beyond a violating state
                c = canon(g2)
                if c not in seen:
                    seen.add(c)
                    states += 1
                    maxdepth = max(maxdepth, len(h2))
                    frontier.append((g2, refs2, h2))
    stems = ref2d.stems_of(root_pairs)
    graph = ref2d.stem_graph(stems)
    nontrivial = any(L == 1 for _, _, L in stems) or any(graph[v] for v in graph)
    return dict(nontrivial=nontrivial, outcome="states=%d depth=%d" % (min(states, 999) // 50 * 50, maxdepth), violations=out,
                states=states, transitions=transitions, traces=transitions, extra=dict(distinct_answers=len(answers)))


def _last_deriv(hist):
    for k, op in reversed(hist):
        if op.startswith("without"):
            return "after-" + op
    return "no-derivation"
