"""Helpers shared by the secondary-structure properties."""
from mc import enum2d
from mc.engine import observe
from mc.ref import ref2d


def build(case, shift=0):
    from rnapolis.common import BpSeq

    return BpSeq.from_string(enum2d.bpseq_text(case, shift))


def seq_of(case, shift=0):
    return case.get("seq") or enum2d.letters_for(case["n"], shift)


def info(case):
    stems = ref2d.stems_of(case["pairs"])
    graph = ref2d.stem_graph(stems)
    knotted = any(graph[v] for v in graph)
    maxcomp = max([len(c) for c in ref2d.components(graph)] or [0])
    return stems, graph, knotted, maxcomp


def viol(sig, message, observed=None, expected=None):
    return dict(signature=sig, message=message, observed=observed, expected=expected)


def check_dbn(where, case, seq, dbn, out):
    """C01 oracle on one DotBracket object; appends violations to out; returns decoded pairs or None."""
    probs = ref2d.check_encoding(case["n"], seq, case["pairs"], dbn.sequence, dbn.structure)
    if probs:
        kind = probs[0].split(":")[0].split(" at ")[0]
        out.append(viol("%s:%s" % (where, _kind(probs[0])), "%s of %s: %s" % (where, case["pairs"], "; ".join(probs)[:300]),
                        observed=dbn.structure, expected="lossless encoding of %s" % (case["pairs"],)))
        return None
    return ref2d.decode(dbn.structure)[0]


def _kind(p):
    for k in ("sequence differs", "length", "foreign character", "closer", "unclosed", "decoded pairs differ", "crossing pairs"):
        if p.startswith(k):
            return k.replace(" ", "-")
    return "other"


def call(where, fn, out, *a, **kw):
    r = observe(fn, *a, **kw)
    if r[0] == "exc":
        out.append(viol("%s:%s" % (where, r[1]), "%s raised %s" % (where, r[2]), observed=r[2], expected="returns"))
        return None
    return r[1]
