"""C17 - clash detection equals the pairwise van-der-Waals definition (form S x configurations)."""
import contextlib
import csv
import io
import itertools
import math
import os
import re
import sys

import numpy as np

from mc import corpus, enum3d, enumio
from mc.engine import observe, scratch_dir
from mc.props.common2d import viol

ID = "C17"
LEVEL = "exploration"
RULE = (
    "contact lattice: two template nucleotides (or a nucleotide and a non-nucleotide group) placed so that a chosen atom pair - all 10 unordered "
    "C/N/O/P type pairs plus same-name pairs - is at sum-0.2, sum-0.001, sum+0.001, sum+0.5-0.001, sum+0.5+0.001, sum+0.7 A, x occupancy pairs "
    "{(1,1),(.5,.5),(.3,.7),(.5,.6),(absent,absent),(0,1),(.25,.25)} x {same residue, other residue of the chain, other chain}; corpus structures "
    "as they are, compressed by 0.8 and with a fixed 0.2 A jitter field; EACH under ALL 32 option combinations, compared as a set with an O(n^2) "
    "enumeration of the definition (margin 1e-6 on distance vs threshold); clashfinder.main in-process: printed per-residue/per-chain maxima must "
    "equal the maxima over the listed atom clashes and the CSV must list the same clashes. non-trivial = the reference lists at least one clash; "
    "distinct = (structure, options)."
)
ASSUMPTIONS = [
    "radii are read by name from the module constants (the property does not fix their values); element->radius mapping, <=, +0.5, filters and 'each pair once' are the harness's own",
    "which residues are nucleic acid is taken from Residue3D.is_nucleotide",
    "pairs involving an absent occupancy are judged only under ignore-occupancy",
]
OPTS = list(itertools.product((False, True), repeat=5))  # ignore_occupancy, ignore_autoclashes, nucleic_acid_only, require_same_atom_name, molprobity
TYPE_ATOM = {"C": "C1'", "N": "N1", "O": "O2'", "P": "P"}
# appended (indices of stored replays stay valid): sums that miss 1 by a few thousandths / hundredths, and a sum that is 1 only up to rounding (0.1 + 0.9, 0.35 + 0.65)
OCC = [(1.0, 1.0), (0.5, 0.5), (0.3, 0.7), (0.5, 0.6), (None, None), (0.0, 1.0), (0.25, 0.25), (0.5, 0.504), (0.62, 0.376), (0.33, 0.66), (0.35, 0.65), (0.1, 0.9), (1.0, 0.004)]
_tier = ["quick"]


def worker_init(tier):
    _tier[0] = tier


def BOUNDS(tier):
    q = tier == "quick"
    return dict(options=32, type_pairs="10 + 4 same-name", distances=7, occupancy_pairs=len(OCC), placements=3, partner_kinds=2,
                corpus_files=len(CORPUS_Q if q else CORPUS_T), corpus_variants=["identity", "compressed 0.8", "jitter 0.2"], cli_cases="every 5th lattice structure x 4 option sets")


CORPUS_Q = ["1HMH_1_E.cif", "6INQ.cif", "1DFU_1_M-N.cif", "4WTI_1_T-P.cif", "1E7K_1_C.cif", "1A1T_1_B.cif"]
CORPUS_T = CORPUS_Q + ["184D.cif", "6FC9.cif", "1JJP.cif", "1ehz-assembly-1.cif", "4gqj-assembly1.cif", "488d.pdb", "4qln.cif"]


def lattice():
    types = "CNOP"
    pairs = [(a, b, False) for a, b in itertools.combinations_with_replacement(types, 2)] + [(a, a, True) for a in types]
    k = 0
    for t1, t2, same in pairs:
        for di in range(7):
            for oi in range(len(OCC)):
                if di == 6 and oi > 5:
                    continue  # coincident atoms: the first six occupancy pairs
                for place in ("same-residue", "same-chain", "other-chain", "same-identity"):
                    if place == "same-identity" and (oi > 2 or di not in (0, 2, 5)):
                        continue  # a second copy of the residue under the same identifiers (symmetry mate / assembly copy): a reduced sub-lattice
                    if same and place == "same-residue":
                        continue
                    for partner in ("nucleotide", "group"):
                        if partner == "group" and place == "same-residue":
                            continue
                        yield dict(t1=t1, t2=t2, same_name=same, dist=di, occ=oi, place=place, partner=partner, cli=(k % 5 == 0))
                        k += 1


IDMODES = {
    "plain": [("A", 1, None), ("A", 2, None), ("A", 3, None), ("A", 4, None)],
    "icodes": [("A", 10, None), ("A", 10, "A"), ("A", 10, "B"), ("A", 11, None)],
    "two-chains": [("A", 1, None), ("A", 2, None), ("B", 1, None), ("B", 2, None)],
    "two-chains-icodes": [("A", 5, None), ("A", 5, "A"), ("B", 5, None), ("B", 5, "A")],
    "negative": [("A", -2, None), ("A", -1, None), ("A", 0, None), ("A", 1, None)],
    # two different residues at one position (microheterogeneity: the residue names differ), then two ordinary ones
    "same-position": [("A", 10, None), ("A", 10, None), ("A", 11, None), ("A", 12, None)],
}
OCC4 = [(1.0, 1.0, 1.0, 1.0), (0.5, 1.0, 0.25, 1.0), (1.0, 0.25, 0.5, 0.75), (0.25, 0.5, 1.0, 0.5), (0.5, 0.5, 0.5, 0.5)]


def report_cases():
    """Four small residues in a row, each clashing with the next (and inside itself), with per-residue occupancies: the aggregation of the report
    (per-residue and per-chain maxima, grouping by full residue identity) is exercised under every identity mode."""
    for idmode in IDMODES:
        for oi in range(len(OCC4)):
            for order in ("listed", "reversed"):
                yield dict(report=True, idmode=idmode, occ4=oi, order=order)


def families(tier):
    q = tier == "quick"
    return [
        ("report", lambda: report_cases(), 1),
        ("lattice", lambda: lattice(), 1),
        ("corpus", lambda: (dict(file=f, variant=v) for f in (CORPUS_Q if q else CORPUS_T) for v in ("identity", "compressed", "jitter")), 1),
    ]


def radii():
    from rnapolis import clashfinder as cf

    return {"C": cf.CARBON_RADIUS, "N": cf.NITROGEN_RADIUS, "O": cf.OXYGEN_RADIUS, "P": cf.PHOSPHORUS_RADIUS}


def make_atoms(case):
    """Abstract atoms [(chain, num, resname, name, xyz, occ)] for a lattice case."""
    R = radii()
    tpl = enum3d.TEMPLATES["single"]
    g = tpl["G"]
    res1 = [("A", 1, "G", n, np.array([x, y, z]), 1.0) for n, x, y, z, el in g["atoms"]]
    t1, t2 = case["t1"], case["t2"]
    n1 = TYPE_ATOM[t1]
    n2 = TYPE_ATOM[t2] if not case["same_name"] else n1
    if not case["same_name"] and n2 == n1:
        n2 = {"C": "C4'", "N": "N9", "O": "O4'", "P": "P"}[t2]
    s = R[t1] + R[t2]
    # index 6: distance exactly 0.0 - two distinct atoms at the same coordinates (superposed copies of a group), certainly a clash
    d = [s - 0.2, s - 0.001, s + 0.001, s + 0.5 - 0.001, s + 0.5 + 0.001, s + 0.7, 0.0][case["dist"]]
    o1, o2 = OCC[case["occ"]]
    p1 = next(a for a in res1 if a[3] == n1)[4]
    cen = np.mean([a[4] for a in res1], axis=0)
    direction = p1 - cen
    direction = direction / np.linalg.norm(direction)
    atoms = []
    if case["place"] == "same-residue":
        if n1 == n2:
            return None
        # move atom n2 of the same residue next to n1
        for a in res1:
            xyz = a[4]
            occ = a[5]
            if a[3] == n2:
                xyz = p1 + direction * d
                occ = o2
            if a[3] == n1:
                occ = o1
            atoms.append((a[0], a[1], a[2], a[3], xyz, occ))
        return atoms
    chain2, num2 = ("A", 2) if case["place"] == "same-chain" else (("A", 1) if case["place"] == "same-identity" else ("B", 1))
    if case["partner"] == "nucleotide":
        src = [(n, np.array([x, y, z])) for n, x, y, z, el in g["atoms"]]
        # point-reflect the partner through its own probe atom so that it extends away from residue 1
        q = next(x for n, x in src if n == n2)
        res2 = [(chain2, num2, "G", n, p1 + direction * d - (x - q) * 1.0 + 0 * x, 1.0) for n, x in src]
        # (x - q) reversed: partner lies on the far side
        res2 = [(c, m, rn, n, p1 + direction * d + _reflect(x - q, direction), 1.0) for (c, m, rn, n, _, _), (_, x) in zip(res2, src)]
    else:
        names = [n2] + [nm for nm in ("CA", "N", "C", "O") if nm != n2][:3]
        res2 = []
        for k, nm in enumerate(names):
            res2.append((chain2, num2, "LIG", nm, p1 + direction * (d + 1.9 * k), 1.0))
    for a in res1:
        atoms.append((a[0], a[1], a[2], a[3], a[4], o1 if a[3] == n1 else a[5]))
    for a in res2:
        # eighth element: copy number - two residues with identical identifiers are still two residues (grouping key only)
        atoms.append((a[0], a[1], a[2], a[3], a[4], o2 if a[3] == n2 else a[5], None, 1 if case["place"] == "same-identity" else 0))
    return atoms


def _reflect(v, direction):
    """Mirror v so that it points into the half-space of `direction` (keeps distances inside the partner)."""
    along = float(np.dot(v, direction))
    return v - direction * along + direction * abs(along)


def to_residues(atoms):
    from rnapolis.common import ResidueAuth
    from rnapolis.tertiary import Atom, Residue3D

    groups = []
    for a in atoms:
        key = (a[0], a[1], a[2], a[6] if len(a) > 6 else None, a[7] if len(a) > 7 else 0)
        if groups and groups[-1][0] == key:
            groups[-1][1].append(a)
        else:
            groups.append((key, [a]))
    res = []
    for (chain, num, rn, icode, _copy), ats in groups:
        auth = ResidueAuth(chain, num, icode, rn)
        al = tuple(Atom(None, None, auth, 1, a[3], float(a[4][0]), float(a[4][1]), float(a[4][2]), a[5]) for a in ats)
        res.append(Residue3D(None, auth, 1, rn if len(rn) == 1 else "?", al))
    return res


def reference(residues, opts):
    """O(n^2) enumeration. Returns (certain:set, undecided:set) of frozenset({atom ids})."""
    ignore_occ, ignore_auto, na_only, same_name, molp = opts
    R = radii()
    items = []
    for ri, r in enumerate(residues):
        if na_only and not r.is_nucleotide:
            continue
        for ai, a in enumerate(r.atoms):
            nm = a.name.strip()
            if nm[:1] in R:
                items.append((ri, ai, a, nm))
    certain, undecided = set(), set()
    if not items:
        return certain, undecided
    xyz = np.array([[a.x, a.y, a.z] for _, _, a, _ in items])
    rad = np.array([R[nm[0]] for _, _, _, nm in items])
    add = 0.5 if molp else 0.0
    n = len(items)
    for i0 in range(0, n, 512):
        blk = xyz[i0 : i0 + 512]
        dm = np.sqrt(((blk[:, None, :] - xyz[None, :, :]) ** 2).sum(-1))
        th = rad[i0 : i0 + 512, None] + rad[None, :] + add
        cand = np.argwhere(dm <= th + 1e-6)
        for bi, j in cand:
            i = i0 + int(bi)
            j = int(j)
            if j <= i:
                continue
            ri, ai, a, na = items[i]
            rj, aj, b, nb = items[j]
            if ignore_auto and ri == rj:
                continue
            if same_name and a.name != b.name:
                continue
            key = frozenset(((ri, ai), (rj, aj)))
            und = abs(dm[bi, j] - th[bi, j]) < 1e-6
            if not ignore_occ:
                if a.occupancy is None or b.occupancy is None:
                    und = True
                elif not math.isclose(a.occupancy + b.occupancy, 1.0):
                    continue
            (undecided if und else certain).add(key)
    return certain, undecided


def observed(residues, result, out):
    index = {}
    for ri, r in enumerate(residues):
        for ai, a in enumerate(r.atoms):
            index[id(a)] = (ri, ai)
    got = []
    for item in result:
        (r1, a1), (r2, a2), occ = item
        if id(a1) not in index or id(a2) not in index:
            out.append(viol("foreign-atom", "a listed clash names an atom that is not in the input"))
            continue
        k1, k2 = index[id(a1)], index[id(a2)]
        if residues[k1[0]] is not r1 and residues[k1[0]] != r1:
            out.append(viol("wrong-residue", "clash lists an atom with a residue it does not belong to"))
        got.append(frozenset((k1, k2)))
    return got


def run_find(residues, out, label):
    from rnapolis import clashfinder as cf

    nontrivial = 0
    for opts in OPTS:
        r = observe(cf.find_clashes, residues, *opts)
        oname = "".join("01"[o] for o in opts)
        if r[0] == "exc":
            out.append(viol("find_clashes:" + r[1], "find_clashes%s raised %s" % (opts, r[2])))
            continue
        got = observed(residues, r[1], out)
        certain, undecided = reference(residues, opts)
        gs = set(got)
        if len(gs) != len(got):
            out.append(viol("pair-twice", "a pair is listed twice (options %s)" % oname))
        missing = certain - gs
        extra = gs - certain - undecided
        if missing:
            k = sorted(missing, key=lambda s: sorted(s))[0]
            out.append(viol("missing:" + describe(residues, k, opts), "%s options %s: clash %s not listed" % (label, oname, names(residues, k)), None, None))
        if extra:
            k = sorted(extra, key=lambda s: sorted(s))[0]
            out.append(viol("extra:" + describe(residues, k, opts), "%s options %s: pair %s listed but is no clash under these options" % (label, oname, names(residues, k)), None, None))
        # occupancy sums reported
        for item in r[1]:
            (r1, a1), (r2, a2), occ = item
            if a1.occupancy is not None and a2.occupancy is not None and not math.isclose(occ, a1.occupancy + a2.occupancy):
                out.append(viol("occupancy-sum-wrong", "reported occupancy sum %r for occupancies %r + %r" % (occ, a1.occupancy, a2.occupancy)))
                break
        nontrivial += bool(certain)
    return nontrivial


def names(residues, key):
    return sorted("%s.%s%d/%s(occ %s)" % (residues[r].chain, residues[r].name, residues[r].number, residues[r].atoms[a].name, residues[r].atoms[a].occupancy) for r, a in key)


def describe(residues, key, opts):
    """Coarse class of a disagreement: which filter / threshold region it concerns."""
    (r1, a1), (r2, a2) = sorted(key)
    A, B = residues[r1].atoms[a1], residues[r2].atoms[a2]
    d = math.dist((A.x, A.y, A.z), (B.x, B.y, B.z))
    R = radii()
    s = R[A.name.strip()[0]] + R[B.name.strip()[0]]
    zone = "below-sum" if d <= s else ("molprobity-band" if d <= s + 0.5 else "beyond")
    occ = "occ-absent" if A.occupancy is None or B.occupancy is None else ("occ-zero" if 0.0 in (A.occupancy, B.occupancy) else ("occ-sum1" if math.isclose(A.occupancy + B.occupancy, 1.0) else "occ-other"))
    return "%s:%s:%s%s" % (zone, occ, "same-res" if r1 == r2 else "diff-res", ":PP" if A.name.strip()[0] == "P" and B.name.strip()[0] == "P" else "")


# ---------------------------------------------------------------------------------------------
# CLI

LINE_CHAIN = re.compile(r"^Clashes found (?:in chain (\S*)|between chains (\S*) and (\S*)) with maximum occupancy sum equal to (\S+)$")
LINE_RES = re.compile(r"^    Clashes found (?:in residue (\S+)|between residues (\S+) and (\S+)) with maximum occupancy sum equal to (\S+)$")
LINE_ATOM = re.compile(r"^        Clashes found between atoms (\S+) and (\S+) with occupancy sum of (\S+)$")


def run_cli(argv):
    from rnapolis import clashfinder as cf

    buf = io.StringIO()
    old = sys.argv
    sys.argv = ["clashfinder"] + argv
    try:
        with contextlib.redirect_stdout(buf):
            cf.main()
    finally:
        sys.argv = old
    return buf.getvalue()


def atoms_to_table(atoms):
    t = []
    for k, a in enumerate(atoms):
        t.append(enumio.atom(k + 1, a[3], a[2], a[0], a[1], "%.3f" % a[4][0], "%.3f" % a[4][1], "%.3f" % a[4][2], element=a[3][0], occ=("%.2f" % a[5]) if a[5] is not None else None,
                             icode=a[6] if len(a) > 6 else None))
    return t


def report_atoms(case):
    ids = IDMODES[case["idmode"]]
    occ = OCC4[case["occ4"]]
    atoms = []
    step = 2 * radii()["C"] - 0.2  # two carbons closer than the sum of their radii
    for k, (chain, num, icode) in enumerate(ids):
        x0 = 2 * step * k
        # C1' - C2' inside the residue clash; C2' of residue k clashes with C1' of residue k+1; N1 off the axis clashes with nothing
        for nm, dx, dy in (("C1'", 0.0, 0.0), ("C2'", step, 0.0), ("N1", step / 2, 6.0)):
            atoms.append((chain, num, "GCAU"[k], nm, np.array([x0 + dx, dy, 0.0]), occ[k], icode))
    if case["order"] == "reversed":
        groups = [atoms[i:i + 3] for i in range(0, len(atoms), 3)]
        atoms = [a for g in reversed(groups) for a in g]
    return atoms


def check_cli(atoms, out):
    from rnapolis import clashfinder as cf
    from rnapolis.parser import read_3d_structure

    t = atoms_to_table(atoms)
    extra = {"exptl": (["entry_id", "method"], [(("v", "VERIF"), ("v", "X-RAY DIFFRACTION"))]), "refine": (["entry_id", "ls_d_res_high"], [(("v", "VERIF"), ("v", "1.90"))])}
    sd = scratch_dir()
    n = 0
    full = ([], ["--ignore-occupancy"], ["--ignore-occupancy", "--enable-molprobity-mode"], ["--ignore-occupancy", "--ignore-autoclashes", "--require-same-atom-name", "--enable-molprobity-mode"])
    # the same atoms as mmCIF with exptl/refine metadata, as mmCIF without those categories, and as PDB (which has no such metadata at all)
    runs = [("clash.cif", enumio.emit_cif(t, null_occ=".", extra_categories=extra), fl) for fl in full]
    runs.append(("clash-nometa.cif", enumio.emit_cif(t, null_occ="."), ["--ignore-occupancy"]))
    if all(a["occ"] is not None for a in t):
        runs.append(("clash.pdb", enumio.emit_pdb(t), ["--ignore-occupancy"]))
        runs.append(("clash.pdb", enumio.emit_pdb(t), ["--enable-molprobity-mode"]))
    for fname, text, flags in runs:
        path = os.path.join(sd, fname)
        with open(path, "w") as f:
            f.write(text)
        pcsv = os.path.join(sd, "clash.csv")
        if os.path.exists(pcsv):
            os.remove(pcsv)
        r = observe(run_cli, [path] + flags + ["--csv", pcsv])
        if r[0] == "exc":
            out.append(viol("cli:%s%s" % (r[1], "" if fname == "clash.cif" else ":" + fname.split(".", 1)[0].replace("clash", "") + fname.rsplit(".", 1)[1]),
                            "clashfinder.main %s on %s raised %s" % (flags, fname, r[2])))
            continue
        with open(path) as f:
            s = read_3d_structure(f, 1)
        opts = ("--ignore-occupancy" in flags, "--ignore-autoclashes" in flags, "--nucleic-acid-only" in flags, "--require-same-atom-name" in flags, "--enable-molprobity-mode" in flags)
        lib = cf.find_clashes(s.residues, *opts)
        # parse the report
        chains = []
        for line in r[1].splitlines():
            m = LINE_CHAIN.match(line)
            if m:
                chains.append(dict(max=float(m.group(4)), residues=[]))
                continue
            m = LINE_RES.match(line)
            if m and chains:
                chains[-1]["residues"].append(dict(max=float(m.group(4)), atoms=[], names=(m.group(1) or m.group(2), m.group(1) or m.group(3))))
                continue
            m = LINE_ATOM.match(line)
            if m and chains and chains[-1]["residues"]:
                chains[-1]["residues"][-1]["atoms"].append((m.group(1), m.group(2), float(m.group(3))))
                continue
            if line.strip():
                out.append(viol("cli:unparsable-line", "unexpected report line %r" % line))
        listed = []
        for c in chains:
            vals = []
            for rr in c["residues"]:
                if not rr["atoms"]:
                    out.append(viol("cli:residue-without-atoms", "residue entry without atom clashes"))
                    continue
                mx = max(a[2] for a in rr["atoms"])
                vals.append(mx)
                if not math.isclose(rr["max"], mx):
                    out.append(viol("cli:residue-maximum", "printed per-residue maximum %s, maximum over the listed atom clashes %s (flags %s)" % (rr["max"], mx, flags)))
                for a in rr["atoms"]:
                    listed.append((rr["names"][0], a[0], rr["names"][1], a[1], a[2]))
            if vals and not math.isclose(c["max"], max(vals)):
                out.append(viol("cli:chain-maximum", "printed per-chain maximum %s, maximum over the listed atom clashes %s (flags %s)" % (c["max"], max(vals), flags), c["max"], max(vals)))
        want = sorted((str(r1), a1.name, str(r2), a2.name, round(o, 6)) for (r1, a1), (r2, a2), o in lib)
        got = sorted((x[0], x[1], x[2], x[3], round(x[4], 6)) for x in listed)
        if got != want:
            out.append(viol("cli:report-differs-from-library", "printed atom clashes differ from find_clashes (flags %s)" % flags, got[:4], want[:4]))
        if lib:
            n += 1
            if not os.path.exists(pcsv):
                out.append(viol("cli:csv-missing", "no CSV written although clashes were found"))
            else:
                with open(pcsv) as f:
                    rows = list(csv.reader(f))
                crow = sorted((x[3], x[4], round(float(x[5]), 6)) for x in rows[1:])
                cwant = sorted(("%s %s" % (w[0], w[1]), "%s %s" % (w[2], w[3]), w[4]) for w in want)
                if crow != cwant:
                    out.append(viol("cli:csv-differs", "CSV rows differ from the listed clashes (flags %s)" % flags, crow[:3], cwant[:3]))
    return n


def run_case(case):
    out = []
    if "file" in case:
        t = corpus.table(case["file"])
        atoms = []
        sc = 0.8 if case["variant"] == "compressed" else 1.0
        for k, a in enumerate(t):
            if a["altloc"] not in (None, "A"):
                continue
            xyz = np.array([float(a["x"]), float(a["y"]), float(a["z"])]) * sc
            if case["variant"] == "jitter":
                h = (k * 2654435761) & 0xFFFFFFFF
                xyz = xyz + 0.2 * np.array([((h >> s) & 0xFF) / 127.5 - 1.0 for s in (0, 8, 16)])
            atoms.append((a["chain"], a["resseq"], a["resname"], a["name"], xyz, float(a["occ"]) if a["occ"] is not None else None))
        residues = to_residues(atoms)
        nt = run_find(residues, out, case["file"] + "/" + case["variant"])
    elif case.get("report"):
        atoms = report_atoms(case)
        run_find(to_residues(atoms), out, "report")
        nt = check_cli(atoms, out)
        if nt == 0:
            out.append(viol("harness:report-family-without-clashes", "the report family is built to clash under every flag set; none was listed"))
    else:
        atoms = make_atoms(case)
        if atoms is None:
            return dict(nontrivial=False, outcome="inapplicable", violations=[])
        residues = to_residues(atoms)
        nt = run_find(residues, out, "lattice")
        if case.get("cli"):
            nt += check_cli(atoms, out)
    u = {}
    for v in out:
        u.setdefault(v["signature"], v)
    return dict(nontrivial=nt > 0, outcome="option-sets-with-clashes=%d" % min(nt, 32), violations=list(u.values()), evaluations=32, bulk_nontrivial=max(nt - 1, 0))
