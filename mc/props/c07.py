"""C07 - structural elements decompose the secondary structure consistently (form S)."""
import contextlib
import io
import os
import sys

from mc import enum2d
from mc.engine import observe, scratch_dir
from mc.props.common2d import build, call, info, seq_of, viol
from mc.ref import ref2d

ID = "C07"
LEVEL = "exploration"
RULE = (
    "every partial matching on 1..N (M), every chord diagram of K stems x lengths x gaps (D), ladders; BpSeq.elements compared with an "
    "independent recomputation: stems == maximal stacked runs with mirrored strands, hairpins == pairs enclosing only unpaired "
    "positions, every loop a closed cycle of >=2 strands with paired consecutive ends and unpaired interiors, every unpaired position in "
    "the interior of exactly one reported strand and no paired position in any interior, every strand's texts equal the slices; "
    "motif_extractor.main run in-process (both --bpseq and --dbn) must print exactly these elements. "
    "non-trivial = at least one pair; distinct = distinct input."
)
ASSUMPTIONS = ["the dot-bracket used for strand structure slices is the object's own dot_bracket (C01/C02 check it separately)"]
_tier = ["quick"]


def worker_init(tier):
    _tier[0] = tier


def BOUNDS(tier):
    q = tier == "quick"
    return dict(M_N=10 if q else 12, D_K=4 if q else 5, D_lengths=[1, 2], D_gaps=[0, 1], ladders="1..8", cli="every case with n<=%d" % (8 if q else 10))


def families(tier):
    q = tier == "quick"
    return [
        ("M", lambda: enum2d.M(10 if q else 12), 1),
        ("D", lambda: enum2d.D(4 if q else 5), 1),
        ("Lad", lambda: ({**enum2d.ladder(K, gap=g), "ladder": K} for K in range(1, 9) for g in (0, 1, 2)), 1),
        ("M-exotic-letters", lambda: (enum2d.exotic(c) for c in enum2d.M(7, nmin=2)), 1),
        ("after-derivations", lambda: ({**c, "pre": True} for c in enum2d.M(8 if q else 9, nmin=3)), 1),
        # positions with four and five digits (two or three crossing stems far apart) and many small groups of crossing stems (up to 14 stems in knots)
        ("long-chains", lambda: (c for c in __import__("mc.props.c02", fromlist=["x"])._long_chains(tier) if c["long"] <= 12000), 1),
        ("many-groups", lambda: __import__("mc.props.c16", fromlist=["x"])._many_groups(), 1),
        ("long-stems", lambda: __import__("mc.props.c02", fromlist=["x"])._long_stems(tier), 1),
    ]


def _strand(s):
    return (s.first, s.last, s.sequence, s.structure)


def elements_as_tuples(el):
    stems, singles, hairpins, loops = el
    return (
        [("Stem", _strand(s.strand5p), _strand(s.strand3p)) for s in stems],
        [("SingleStrand", _strand(s.strand), bool(s.is5p), bool(s.is3p)) for s in singles],
        [("Hairpin", _strand(h.strand)) for h in hairpins],
        [("Loop", [_strand(s) for s in l.strands]) for l in loops],
    )


def oracle(n, seq, pairs, structure, tup, out, where="elements"):
    stems_t, singles_t, hairpins_t, loops_t = tup
    partner = {}
    for i, j in pairs:
        partner[i] = j
        partner[j] = i
    # 1. stems
    want = sorted((i, i + L - 1, j - L + 1, j) for i, j, L in ref2d.stems_of(pairs))
    got = sorted((s5[0], s5[1], s3[0], s3[1]) for _, s5, s3 in stems_t)
    if got != want:
        out.append(viol(where + ":stems", "stems differ from the maximal stacked runs", got, want))
    # 2. hairpins
    wanth = sorted(ref2d.hairpins_of(n, partner))
    goth = sorted((s[0], s[1]) for _, s in hairpins_t)
    if goth != wanth:
        out.append(viol(where + ":hairpins", "hairpins differ from the pairs enclosing only unpaired nucleotides", goth, wanth))
    # 3. loops
    for _, strands in loops_t:
        if len(strands) < 2:
            out.append(viol(where + ":loop-one-strand", "loop with fewer than two strands", strands, None))
            continue
        ok = True
        for k in range(len(strands)):
            a, b2 = strands[k], strands[(k + 1) % len(strands)]
            if partner.get(a[1]) != b2[0]:
                ok = False
            if any(partner.get(t) for t in range(a[0] + 1, a[1])):
                ok = False
            if a[0] > a[1]:
                ok = False
        if not ok:
            out.append(viol(where + ":loop-not-closed", "loop is not a closed cycle of paired ends with unpaired interiors", strands, None))
    # 4. coverage
    cover = {}
    allstrands = []
    for _, s, is5, is3 in singles_t:
        lo = s[0] if is5 else s[0] + 1
        hi = s[1] if is3 else s[1] - 1
        allstrands.append((s, lo, hi))
    for _, s in hairpins_t:
        allstrands.append((s, s[0] + 1, s[1] - 1))
    for _, strands in loops_t:
        for s in strands:
            allstrands.append((s, s[0] + 1, s[1] - 1))
    for s, lo, hi in allstrands:
        for t in range(lo, hi + 1):
            cover[t] = cover.get(t, 0) + 1
    unp = [t for t in range(1, n + 1) if t not in partner]
    bad = [t for t in unp if cover.get(t, 0) != 1]
    if bad:
        kind = "uncovered" if all(cover.get(t, 0) == 0 for t in bad) else "multiply-covered"
        if not pairs:
            kind += "-no-pairs"
        out.append(viol(where + ":" + kind, "unpaired positions %s are in the interior of %s strands" % (bad[:6], [cover.get(t, 0) for t in bad[:6]]),
                        [a[0][:2] for a in allstrands], "each unpaired position in exactly one interior"))
    badp = [t for t in cover if t in partner or t < 1 or t > n]
    if badp:
        out.append(viol(where + ":paired-in-interior", "paired or out-of-range positions %s lie in a strand interior" % badp[:6], None, None))
    # 5. slices
    every = [s for s, _, _ in allstrands]
    for _, s5, s3 in stems_t:
        every += [s5, s3]
    for s in every:
        f, l = s[0], s[1]
        if not (1 <= f <= l <= n) or s[2] != seq[f - 1 : l] or s[3] != structure[f - 1 : l]:
            out.append(viol(where + ":slice", "strand texts differ from the slices of sequence / dot-bracket", s, [seq[f - 1 : l], structure[f - 1 : l]]))
            break
    for _, s5, s3 in stems_t:
        if s5[1] - s5[0] != s3[1] - s3[0] or any(partner.get(s5[0] + t) != s3[1] - t for t in range(s5[1] - s5[0] + 1)):
            out.append(viol(where + ":stem-not-mirrored", "stem strands are not mirrored", [s5, s3], None))
            break


def parse_cli(text):
    lines = text.splitlines()
    stems, singles, hairpins, loops = [], [], [], []
    hdr = lines[:3]
    for ln in lines[3:]:
        f = ln.split(" ")
        kind = f[0]
        if kind == "Stem":
            stems.append(("Stem", (int(f[1]), int(f[2]), f[3], f[4]), (int(f[5]), int(f[6]), f[7], f[8])))
        elif kind.startswith("SingleStrand"):
            singles.append(("SingleStrand", (int(f[1]), int(f[2]), f[3], f[4]), kind.endswith("5p"), kind.endswith("3p")))
        elif kind == "Hairpin":
            hairpins.append(("Hairpin", (int(f[1]), int(f[2]), f[3], f[4])))
        elif kind == "Loop":
            g = f[1:]
            loops.append(("Loop", [(int(g[k]), int(g[k + 1]), g[k + 2], g[k + 3]) for k in range(0, len(g), 4)]))
        else:
            raise ValueError("unparsable CLI line %r" % ln)
    return hdr, (stems, singles, hairpins, loops)


def _norm(tup):
    # the printed form names a strand that is both tails only as 5p
    st, ss, hp, lp = tup
    return (st, [(k, s, a, b and not a) for k, s, a, b in ss], hp, lp)


def run_cli(argv):
    from rnapolis import motif_extractor

    buf = io.StringIO()
    old = sys.argv
    sys.argv = ["motif_extractor"] + argv
    try:
        with contextlib.redirect_stdout(buf):
            motif_extractor.main()
    finally:
        sys.argv = old
    return buf.getvalue()


def run_case(case):
    out = []
    n = case["n"]
    seq = seq_of(case)
    b = call("from_string", build, out, case)
    if b is None:
        return dict(nontrivial=True, outcome="build-failed", violations=out)
    if case.get("pre"):
        # the elements asked AFTER the derivations and the other notations of the same object (they are an answer about the object as it was built)
        call("pre:without_isolated", b.without_isolated, out)
        call("pre:without_pseudoknots", b.without_pseudoknots, out)
        call("pre:fcfs", lambda: b.fcfs, out)
        n_pre = len(out)
    el = call("elements", lambda: b.elements, out)
    d = call("dot_bracket", lambda: b.dot_bracket, out)
    if case.get("pre") and str(b) != enum2d.bpseq_text(case):
        out.append(viol("elements:receiver-changed-by-derivation", "the BPSEQ text of the object changed when its derivations were asked for", str(b), enum2d.bpseq_text(case)))
    if el is None or d is None:
        return dict(nontrivial=True, outcome="exc", violations=out)
    tup = elements_as_tuples(el)
    oracle(n, seq, case["pairs"], d.structure, tup, out)
    # description fields equal str()
    for group in el:
        for e in group:
            if getattr(e, "description", str(e)) != str(e):
                out.append(viol("elements:description", "description differs from str()", e.description, str(e)))
    if n <= (8 if _tier[0] == "quick" else 10):
        sd = scratch_dir()
        pb = os.path.join(sd, "x.bpseq")
        with open(pb, "w") as f:
            f.write(enum2d.bpseq_text(case) + "\n")
        pd = os.path.join(sd, "x.dbn")
        with open(pd, "w") as f:
            f.write(">x\n%s\n%s\n" % (seq, d.structure))
        # the same pairs written with other bracket levels than the library would choose (round and square brackets exchanged): a valid input
        # notation; the tool must print its own notation and slice the strands from that one
        pa = os.path.join(sd, "x-alt.dbn")
        with open(pa, "w") as f:
            f.write("%s\n%s\n" % (seq, d.structure.translate(str.maketrans("()[]", "[]()"))))
        runs = [(["--bpseq", pb], b), (["--dbn", pd], b), (["--dbn", pa], b)]
        if case["pairs"]:
            # the two filters (isolated pairs first, then pseudoknots, as the tool applies them); the derivations themselves are C12's subject
            for flags in (["--remove-isolated"], ["--remove-pseudoknots"], ["--remove-isolated", "--remove-pseudoknots"]):
                def derive(flags=flags):
                    x = build(case)
                    if "--remove-isolated" in flags:
                        x = x.without_isolated()
                    if "--remove-pseudoknots" in flags:
                        x = x.without_pseudoknots()
                    return x
                bx = call("derive" + "".join(flags), derive, out)
                if bx is not None:
                    runs.append((["--bpseq", pb] + flags, bx))
                    runs.append((["--dbn", pa] + flags, bx))
        for argv, bexp in runs:
            txt = call("motif_extractor.main", run_cli, out, argv)
            if txt is None:
                continue
            try:
                hdr, ctup = parse_cli(txt)
            except Exception as exc:  # noqa
                out.append(viol("cli:unparsable", "motif_extractor output not parsable: %s" % exc, txt[:400], None))
                continue
            if bexp is b:
                dexp, texp = d.structure, tup
            else:
                r2 = observe(lambda: (bexp.dot_bracket.structure, elements_as_tuples(bexp.elements)))
                if r2[0] == "exc":
                    continue
                dexp, texp = r2[1]
            tag = "" if len(argv) == 2 else ":filters"
            if hdr != ["Full dot-bracket:", seq, dexp]:
                out.append(viol("cli:header" + tag, "motif_extractor %s: header differs" % " ".join(a for a in argv if a.startswith("--")), hdr, ["Full dot-bracket:", seq, dexp]))
            if _norm(ctup) != _norm(texp):
                out.append(viol("cli:elements-differ" + tag, "motif_extractor %s prints other elements than BpSeq.elements" % " ".join(a for a in argv if a.startswith("--")), str(ctup)[:500], str(texp)[:500]))
    nl = len(tup[3])
    return dict(nontrivial=bool(case["pairs"]), outcome="stems=%d hp=%d loops=%d ss=%d" % (min(len(tup[0]), 4), min(len(tup[2]), 3), min(nl, 3), min(len(tup[1]), 4)), violations=out)
