"""Structure families shared by C03, C04, C05, C11: two/three-nucleotide lattices, corpus variants, pair-order schedules."""
import itertools
import math
import os

import numpy as np

from mc import corpus, enum3d
from mc.props import ann_common as ac

COMBOS_Q = [("A", "U"), ("G", "C"), ("G", "U"), ("A", "G"), ("A", "A"), ("G", "G"), ("U", "U"), ("C", "C"), ("A", "C")]
COMBOS_T = [(a, b) for a, b in itertools.combinations_with_replacement("ACGUT", 2)]


def g1_pairs(tier):
    """Two-nucleotide base-pair lattice."""
    q = tier == "quick"
    combos = COMBOS_Q if q else COMBOS_T
    rs = (4.5, 5.5, 6.5, 7.5, 8.5, 9.5) if q else (4.0, 4.5, 5.0, 5.5, 6.0, 6.5, 7.0, 7.5, 8.0, 8.5, 9.5)
    step = 30 if q else 20
    rises = (0.0,) if q else (0.0, 0.7, -0.7)
    tilts = (0.0,) if q else (0.0, 15.0)
    k = 0
    for (l1, l2), r, th, ph, flip, rise, tilt in itertools.product(combos, rs, range(0, 360, step), range(0, 360, step), (False, True), rises, tilts):
        # identity modes rotate over the lattice: ascending numbers, descending numbers (file order need not be sorted order),
        # same number told apart by insertion codes only (ascending / descending)
        k += 1
        yield dict(g=1, l1=l1, l2=l2, r=r, th=th, ph=ph, flip=flip, rise=rise, tilt=tilt, idmode=k % 6, namemode=(k // 6) % 3, thinmode=[0, 0, 0, 1, 0, 2][(k // 12) % 6])


def g1_stack(tier):
    """Two-nucleotide stacking lattice: rise x lateral offset x tilt x twist x face."""
    q = tier == "quick"
    combos = (COMBOS_Q[:5] + [("G", "T"), ("T", "T")]) if q else COMBOS_T
    rises = (2.8, 3.4, 4.0, 4.6, 5.2, 5.8, 6.4, 7.0)
    lats = (0.0, 1.5, 3.0, 4.5, 6.0) if q else (0.0, 1.0, 2.0, 3.0, 4.0, 5.0, 6.0)
    tilts = (0.0, 20.0, 34.0, 36.0, 60.0) if q else (0.0, 10.0, 20.0, 30.0, 34.0, 36.0, 45.0, 60.0)
    twists = range(0, 360, 60) if q else range(0, 360, 30)
    ths = (0, 90, 200) if q else (0, 60, 90, 150, 200, 300)
    kk = 0
    for (l1, l2), rise, lat, tilt, tw, th, flip, sign in itertools.product(combos, rises, lats, tilts, twists, ths, (False, True), (1, -1)):
        if lat == 0.0 and th != ths[0]:
            continue
        kk += 1
        yield dict(g=1, l1=l1, l2=l2, r=lat, th=th, ph=tw, flip=flip, rise=sign * rise, tilt=tilt, idmode=kk % 6, namemode=(kk // 6) % 3, thinmode=[0, 0, 0, 1, 0, 2][(kk // 12) % 6])


# residue names of modified nucleotides whose one-letter code (as given by the sequence records of a file) is the parent base
MODIFIED_NAMES = {"A": "1MA", "G": "7MG", "C": "5MC", "U": "H2U", "T": "5BU"}


_BASE_AND_C1 = {"N1", "C2", "N2", "O2", "N3", "C4", "N4", "O4", "C5", "C6", "N6", "O6", "N7", "C8", "N9", "C7", "C1'"}


def _thin(atoms, case, k):
    """Thin mode 1: the second residue keeps its base and C1' only (no phosphate, no ribose); mode 2: every residue. Such a residue still has
    everything the definitions of a base pair and of a stacking refer to."""
    mode = case.get("thinmode", 0)
    if mode == 2 or (mode == 1 and k >= 1):
        return [(n, p) for n, p in atoms if n in _BASE_AND_C1]
    return atoms


# identity modes of the two lattice residues: ascending, descending, same number told apart by insertion code (ascending / descending),
# and numbers around zero (0 and negative numbers are ordinary author numbers)
IDMODES = [((1, None), (2, None)), ((7, None), (3, None)), ((5, None), (5, "A")), ((5, "B"), (5, "A")), ((0, None), (1, None)), ((0, None), (-1, None))]


def _rn(letter, case, k):
    """Residue name: the plain letter, or (name mode 1) a modified-residue name for every other residue position."""
    return MODIFIED_NAMES[letter] if case.get("namemode") and (k + case.get("namemode")) % 2 == 0 else letter


def specs_of(case):
    """Residue specifications of a g=1 lattice case (used to assemble multi-model structures)."""
    (n1, i1), (n2, i2) = IDMODES[case.get("idmode", 0)]
    return [("A", n1, i1, _rn(case["l1"], case, 0), case["l1"], _thin(enum3d.origin(case["l1"]), case, 0)),
            ("A", n2, i2, _rn(case["l2"], case, 1), case["l2"], _thin(enum3d.place(case["l2"], case["r"], case["th"], case["ph"], case["flip"], case.get("rise", 0.0), case.get("tilt", 0.0)), case, 1))]


def two_model_structure(case):
    """One Structure3D object holding two models with the same residue identities: model 1 = case['m1'], model 2 = case['m2'] (both g=1 lattice cases)."""
    from rnapolis.tertiary import Structure3D

    n1, n2 = case.get("model_numbers", (1, 2))
    return Structure3D(ac.build_residues(specs_of(case["m1"]), n1) + ac.build_residues(specs_of(dict(case["m2"], idmode=case["m1"].get("idmode", 0))), n2))


def two_model_cases(source, stride, offset):
    lst = [c for k, c in enumerate(source) if k % stride == 0]
    for k, (a, b) in enumerate(zip(lst, lst[offset:] + lst[:offset])):
        if (a["l1"], a["l2"]) == (b["l1"], b["l2"]):
            # model numbers of the two models: 1 and 2, or 0 and 1 (zero-based ensembles), or 5 and 2 (not starting at 1, not ascending)
            yield dict(g=4, m1=a, m2=b, model_numbers=[(1, 2), (0, 1), (5, 2)][k % 3])


def near_threshold_cases():
    """The committed list of two-nucleotide placements whose smallest decision margin is 2e-5..2e-4 (mc/data/near_threshold.json): built in memory at
    full precision, so that every decision must be taken on the actual, unrounded coordinates."""
    import json

    with open(os.path.join(os.path.dirname(os.path.dirname(os.path.abspath(__file__))), "data", "near_threshold.json")) as f:
        for c in json.load(f):
            yield {k: v for k, v in c.items() if k != "margin"}


def merge_placements():
    """Committed list (mc/data/merge_placements.json, found by a search of the thorough lattices): two-nucleotide placements in which two donor atoms of one
    base touch oxygens of the other residue's phosphate / ribose and nothing competes for these atoms, so that the contacts merge into class 4 or 8."""
    import json

    with open(os.path.join(os.path.dirname(os.path.dirname(os.path.abspath(__file__))), "data", "merge_placements.json")) as f:
        return [{k: v for k, v in c.items() if k != "merged"} for c in json.load(f)]


def composed_cases(tier):
    """Structures made of several independent two-nucleotide placements, 60 A apart, each in a chain of its own (A, B, C): every ordered pair of the merge
    placements, and every merge placement between two plain lattice placements - listed in chain order and in reverse chain order. What holds for a
    placement alone must hold for it as the second or third group of a larger structure (residue pairs after the first in every per-pair table)."""
    mp = merge_placements()
    plain = [c for k, c in enumerate(g1_pairs("quick")) if k % 997 == 0][:6]
    k = 0
    for a in mp:
        for b in mp:
            k += 1
            # label modes rotate: residues without label ids, label ids ordering the other way round, assembly copies (same author ids, other label chain)
            yield dict(g=5, parts=[a, b], reverse=bool(k % 2), labelmode=(k // 2) % 3)
    if tier != "quick" or True:
        for i, m in enumerate(mp):
            yield dict(g=5, parts=[plain[i % len(plain)], m, plain[(i + 1) % len(plain)]], reverse=bool(i % 2), labelmode=i % 3)
    # placements known to give a base pair (the committed seed list of the three-nucleotide family), as two or three assembly copies and under reversed label order
    import json

    with open(os.path.join(os.path.dirname(os.path.dirname(os.path.abspath(__file__))), "data", "g2_seeds.json")) as f:
        seeds = json.load(f)
    paired = []
    for key, lst in sorted(seeds.items()):
        c0 = key.split(":")[0]
        for a in lst[:2]:
            paired.append(dict(g=1, l1=c0, l2=a["l2"], r=a["r"], th=a["th"], ph=a["ph"], flip=a["flip"], rise=0.0, tilt=0.0))
    paired = paired[:: max(1, len(paired) // 24)][:24]
    for i, c in enumerate(paired):
        yield dict(g=5, parts=[c, c], reverse=False, labelmode=2)
        yield dict(g=5, parts=[c, paired[(i + 5) % len(paired)], c], reverse=bool(i % 2), labelmode=1 + i % 2)
    # chains named B, AA, A-2 (in this file order): residues are ordered by chain NAME as a string ("A-2" < "AA" < "B")
    for i, c in enumerate(paired[:8]):
        yield dict(g=5, parts=[c, paired[(i + 2) % len(paired)], c], reverse=bool(i % 2), labelmode=0, chainmode=1)
        yield dict(g=5, parts=[c, paired[(i + 2) % len(paired)], paired[(i + 4) % len(paired)]], reverse=bool(i % 2), labelmode=0, chainmode=2)
    # stacked and paired placements as assembly copies / under reversed label order
    stacked = [c for k, c in enumerate(g1_stack("quick")) if k % 1499 == 0][:8]
    for i, c in enumerate(stacked):
        for lm in (1, 2):
            yield dict(g=5, parts=[c, stacked[(i + 3) % len(stacked)], c], reverse=bool(i % 2), labelmode=lm)
        yield dict(g=5, parts=[c, stacked[(i + 3) % len(stacked)], c], reverse=bool(i % 2), labelmode=0, chainmode=2)


def structure_of(case):
    if case["g"] == 5:
        specs = []
        lm = case.get("labelmode", 0)
        n = len(case["parts"])
        for k, part in enumerate(case["parts"]):
            off = np.array([0.0, 60.0 * k, 25.0 * k])
            for j, (_, num, ic, rn, letter, atoms) in enumerate(specs_of(dict(part, idmode=0, namemode=0, thinmode=0))):
                chain = "ABCDEF"[k]
                if case.get("chainmode") == 2:
                    # the two residues of a placement sit in DIFFERENT chains whose names differ in length: the first in B (b, C), the second in AA (AB, A-2)
                    chain = [["B", "AA"], ["b", "AB"], ["C", "A-2"]][k % 3][j % 2]
                elif case.get("chainmode"):
                    # chain names of different lengths whose plain string order is not their order by length (B < b? no: "AA" < "B", "A-2" < "B")
                    chain = ["B", "AA", "A-2", "b", "AB"][k]
                label = None
                if lm == 1:
                    # label ids that order the residues the other way round than the author ids do (label chains C, B, A; label numbers descending)
                    label = ("ABCDEF"[n - 1 - k], 100 - num)
                elif lm == 2:
                    # assembly copies: every group carries the SAME author identity (chain A, same numbers); only the label chain tells the copies apart
                    chain, label = "A", ("A" if k == 0 else "A-%d" % (k + 1), num)
                specs.append((chain, num, ic, rn, letter, [(nm, np.asarray(xyz, float) + off) for nm, xyz in atoms], label))
        if case.get("reverse"):
            # chains listed in reverse order (file order is not identity order)
            chains = sorted({sp[0] for sp in specs}, reverse=True)
            specs = [sp for ch in chains for sp in specs if sp[0] == ch]
        return ac.build_structure(specs)
    if case["g"] == 1:
        (n1, i1), (n2, i2) = IDMODES[case.get("idmode", 0)]
        specs = [("A", n1, i1, _rn(case["l1"], case, 0), case["l1"], _thin(enum3d.origin(case["l1"]), case, 0)),
                 ("A", n2, i2, _rn(case["l2"], case, 1), case["l2"], _thin(enum3d.place(case["l2"], case["r"], case["th"], case["ph"], case["flip"], case.get("rise", 0.0), case.get("tilt", 0.0)), case, 1))]
        return ac.build_structure(specs)
    if case["g"] == 2:
        c = case["center"]
        ids = case.get("ids") or [("A", 1), ("A", 2), ("B", 3)]
        ids = [list(x) + [None] * (3 - len(x)) for x in ids]
        specs = [(ids[0][0], ids[0][1], ids[0][2], _rn(c, case, 0), c, _thin(enum3d.origin(c), case, 0))]
        for k, p in enumerate(case["partners"]):
            specs.append((ids[1 + k][0], ids[1 + k][1], ids[1 + k][2], _rn(p["l2"], case, 1 + k), p["l2"], _thin(enum3d.place(p["l2"], p["r"], p["th"], p["ph"], p["flip"], p.get("rise", 0.0), p.get("tilt", 0.0)), case, 1 + k)))
        return ac.build_structure(specs)
    raise KeyError(case)


_g2_cache = {}


def g2(tier):
    """Three-nucleotide competition: every pair of the committed seed placements (mc/data/g2_seeds.json) that each gave a reported
    pair on the same edge of the central base (quick: first 8 seeds per (base, edge); thorough: all 14)."""
    import json

    if tier in _g2_cache:
        return _g2_cache[tier]
    with open(os.path.join(os.path.dirname(os.path.dirname(os.path.abspath(__file__))), "data", "g2_seeds.json")) as f:
        seeds = json.load(f)
    cap = 8 if tier == "quick" else 14
    cases = []
    for key, lst in sorted(seeds.items()):
        c, edge = key.split(":")
        for a, b in itertools.combinations(lst[:cap], 2):
            if (a["th"], a["r"]) == (b["th"], b["r"]):
                continue
            pa = {k: a[k] for k in ("l2", "r", "th", "ph", "flip")}
            pb = {k: b[k] for k in ("l2", "r", "th", "ph", "flip")}
            # listing order vs identity order: ascending, central residue last-in-order, partners swapped / other chain first
            ids = [[("A", 1), ("A", 2), ("B", 3)], [("B", 9), ("A", 2), ("A", 5)], [("A", 5), ("B", 1), ("A", 2)], [("A", 4, "A"), ("A", 4), ("A", 4, "C")]][len(cases) % 4]
            cases.append(dict(g=2, center=c, edge=edge, partners=[pa, pb], ids=[list(x) for x in ids], namemode=(len(cases) // 4) % 3, thinmode=[0, 0, 0, 1, 0, 2][(len(cases) // 12) % 6]))
    _g2_cache[tier] = cases
    return cases


# ---------------------------------------------------------------------------------------------
# corpus variants

_struct_cache = {}


def corpus_structure(name):
    from rnapolis.parser import read_3d_structure

    if name not in _struct_cache:
        path = os.path.join(corpus.TESTS, name)
        if name.endswith(".gz"):
            from rnapolis.util import handle_input_file

            f = handle_input_file(path)
            _struct_cache[name] = read_3d_structure(f, None)
        else:
            with open(path) as f:
                _struct_cache[name] = read_3d_structure(f, None)
    return _struct_cache[name]


def _jit(k, amp):
    h = (k * 2654435761 + 12345) & 0xFFFFFFFF
    return amp * np.array([((h >> s) & 0xFF) / 127.5 - 1.0 for s in (0, 8, 16)])


def variant(structure, kind, param=None):
    from rnapolis.tertiary import Atom, Residue3D, Structure3D

    cube = enum3d.cube_rotations()
    res = []
    k = 0
    shift = 0
    if kind == "renumber":
        # order-preserving renumbering: param 'negative' puts every residue number below zero, 'across-9999' makes the numbers run from 9990 upwards
        nums = [r.number for r in structure.residues]
        shift = (-max(nums) - 1) if param == "negative" else (9990 - min(nums))
    for ri, r in enumerate(structure.residues):
        if kind == "drop-residue" and ri == param:
            continue
        atoms = []
        for a in r.atoms:
            k += 1
            if kind == "drop-atom" and a.name == param:
                continue
            xyz = np.array([a.x, a.y, a.z])
            if kind == "jitter":
                xyz = xyz + _jit(k, param)
            elif kind == "rotate":
                xyz = np.array(cube[param], float) @ xyz
            elif kind == "translate":
                xyz = xyz + np.array(param)
            atoms.append(Atom(a.entity_id, a.label, a.auth, a.model, a.name, float(xyz[0]), float(xyz[1]), float(xyz[2]), a.occupancy))
        if atoms and shift:
            from rnapolis.common import ResidueAuth, ResidueLabel

            auth = ResidueAuth(r.auth.chain, r.auth.number + shift, r.auth.icode, r.auth.name) if r.auth is not None else None
            label = ResidueLabel(r.label.chain, r.label.number + shift, r.label.name) if (r.label is not None and r.auth is None) else r.label
            atoms = [Atom(a.entity_id, label, auth, a.model, a.name, a.x, a.y, a.z, a.occupancy) for a in atoms]
            res.append(Residue3D(label, auth, r.model, r.one_letter_name, tuple(atoms)))
        elif atoms:
            res.append(Residue3D(r.label, r.auth, r.model, r.one_letter_name, tuple(atoms)))
    if kind == "reverse-listing":
        res = res[::-1]
    elif kind == "second-half-first":
        res = res[len(res) // 2 :] + res[: len(res) // 2]
    return Structure3D(res)


def corpus_cases(tier, files_quick, files_thorough, rotations=True):
    files = files_quick if tier == "quick" else files_thorough
    for name in files:
        s = corpus_structure(name)
        yield dict(g=3, file=name, kind="identity")
        n = len(s.residues)
        # residues that are nucleotides (dropping a water changes nothing)
        for ri, r in enumerate(s.residues):
            if r.one_letter_name.upper() in "ACGUT" and len(r.atoms) > 5:
                yield dict(g=3, file=name, kind="drop-residue", param=ri)
        names = sorted({a.name for r in s.residues for a in r.atoms if r.one_letter_name.upper() in "ACGUT"})
        for an in names:
            if not an.startswith("H"):
                yield dict(g=3, file=name, kind="drop-atom", param=an)
        for amp in (0.05, 0.2, 0.5):
            yield dict(g=3, file=name, kind="jitter", param=amp)
        yield dict(g=3, file=name, kind="reverse-listing")
        yield dict(g=3, file=name, kind="second-half-first")
        yield dict(g=3, file=name, kind="renumber", param="negative")
        yield dict(g=3, file=name, kind="renumber", param="across-9999")
        if rotations:
            for m in range(1, 24):
                yield dict(g=3, file=name, kind="rotate", param=m)


def corpus_variant_structure(case):
    s = corpus_structure(case["file"])
    if case["kind"] == "identity":
        return s
    return variant(s, case["kind"], case.get("param"))


# ---------------------------------------------------------------------------------------------
# pair-order schedules (form E)

def schedules(natural, inter_idx, dmax, allperm_max=5):
    """Permutations of the inter-residue entries of `natural` (positions inter_idx); intra-residue pairs stay in place.
    <= allperm_max inter pairs: all permutations; otherwise identity, reversal, every move-to-front, every adjacent transposition
    (d=1) and all pairs of adjacent transpositions / moves (d=2)."""
    n = len(inter_idx)
    ident = tuple(range(n))
    if n <= 1:
        yield ident
        return
    if n <= allperm_max:
        for p in itertools.permutations(range(n)):
            yield p
        return
    seen = set()

    def emit(p):
        if p not in seen:
            seen.add(p)
            return True
        return False

    base = [ident, tuple(reversed(ident))]
    moves = []
    for i in range(n - 1):
        p = list(ident)
        p[i], p[i + 1] = p[i + 1], p[i]
        moves.append(tuple(p))
    for i in range(1, n):
        moves.append((i,) + tuple(j for j in ident if j != i))
    for p in base + moves:
        if emit(p):
            yield p
    if dmax >= 2:
        for a, b in itertools.combinations(moves, 2):
            p = tuple(a[k] for k in b)
            if emit(p):
                yield p


def apply_schedule(natural, inter_idx, perm):
    out = list(natural)
    vals = [natural[i] for i in inter_idx]
    for slot, src in zip(inter_idx, perm):
        out[slot] = vals[src]
    return out
