"""C10 - fitting to PDB limits is a structure-preserving renaming or a clean refusal (form S)."""
import itertools
import string

from mc import enumio
from mc.engine import observe
from mc.props.common2d import viol

ID = "C10"
LEVEL = "exploration"
RULE = (
    "every atom table of the product {1,2,3,62,63 chains} x {chain id length 1,2,4, one-letter id before long ids, long ids before a one-letter id} x {residue numbers small, 9999, 10000, 12345, negative} x "
    "{first serial 1, 99990, 100000} x {insertion codes none/some} x {1,2 models} x {1,2 atoms per residue} x {plain, with altloc/charges/HETATM} x {mmCIF-, PDB-derived}, produced by "
    "the library's own parsers from independently emitted text, plus tables with 10000 residues in one chain, 10002 / 9998 residues told apart by insertion codes, and (thorough) more than 99999 atoms; "
    "can_write_pdb must agree with the limits, a fitting table must be returned unchanged (same object), an unfittable one must raise ValueError, "
    "and any other outcome must be a table within limits with the same atoms in the same order and one-to-one, grouping-preserving chain and "
    "residue renamings that survives write_pdb + parse_pdb_atoms. non-trivial = table that does not already fit; distinct = distinct table."
)
ASSUMPTIONS = [
    "PDB-derived tables are within PDB limits by construction (they were read from PDB text)",
    "the three limits of the property (serial, chain id length, residue number) define 'fits'; negative numbers wider than 4 columns are not generated",
]
_tier = ["quick"]


def worker_init(tier):
    _tier[0] = tier


def BOUNDS(tier):
    return dict(product="5 x 3 x 5 x 3 x 2 x 2 x 2 x 2 formats (PDB-derived only where the table is expressible as PDB)",
                big="10000 residues in one chain; %s" % ("100001 atoms (thorough)" if tier != "quick" else "no >99999-atom table in quick"))


def chain_ids(n, length):
    base = string.ascii_uppercase + string.ascii_lowercase + string.digits + "!$%&*+"
    if length == "mix-first":
        # a one-letter id that is not the first letter of the alphabet, followed by long ids
        return (["B"] + [base[i % 62] + "A" for i in range(n - 1)])[:n]
    if length == "mix-last":
        # long ids followed by one-letter ids that collide with the letters a positional renaming would hand out
        return ([base[i % 62] + base[i % 62] for i in range(n - 1)] + ["A"])[-n:] if n > 1 else ["A"]
    if length == 1:
        return [base[i] for i in range(n)]
    if length == "runs":
        # two-character ids that are runs of the alphabet a renaming draws from (AB, BC, Za, z0, 12 ...): still too long for a PDB file
        return [base[(7 * i) % 61] + base[(7 * i) % 61 + 1] for i in range(n)]
    out = []
    for i in range(n):
        out.append((base[i % 62] + base[(i // 62) % 62] + "XY")[:length])
    return out


def make_table(nch, idlen, resmode, serial0, icodes, models, apr, extras=False):
    if isinstance(serial0, str) and serial0.startswith("m1end"):
        # the last atom of the FIRST model carries exactly this serial: with two models, model 1 is within the limit and model 2 beyond it
        n = len(make_table(nch, idlen, resmode, 1, icodes, 1, apr))
        serial0 = int(serial0[5:]) - n + 1
    elif isinstance(serial0, str):
        # 'end99999' / 'end100000': the LAST atom carries exactly this serial (the limit itself, and the first number beyond it)
        n = len(make_table(nch, idlen, resmode, 1, icodes, models, apr))
        serial0 = int(serial0[3:]) - n + 1
    t = []
    serial = serial0
    ids = chain_ids(nch, idlen)
    for m in range(1, models + 1):
        for c, cid in enumerate(ids):
            for r in range(2):
                num = {"small": 1 + r, "9999": 9998 + r, "10000": 10000 + r, "12345": 12345 + 10 * r, "negative": -5 + 5 * r}[resmode]
                # icodes: False / True (every chain) / 'last-chain' / 'first-chain' (chains with and without insertion codes in one table)
                here = bool(icodes) and (icodes is True or (icodes == "last-chain" and c == len(ids) - 1) or (icodes == "first-chain" and c == 0))
                ic = ("A" if r == 1 else None) if here else None
                if here and r == 1:
                    num = num - 1  # same number as the previous residue, told apart by the insertion code only
                for k in range(apr):
                    t.append(enumio.atom(serial, ["P", "C1'"][k], "GCUA"[c % 4], cid, num, "%.3f" % (serial % 900 + 0.5), "%.3f" % (c + 0.25), "%.3f" % (r - 0.75),
                                         element="PC"[k], icode=ic, model=m))
                    serial += 1
    if extras:
        t[0]["altloc"] = "A"
        t[0]["occ"] = "0.50"
        t[-1]["charge"] = 1
        t[len(t) // 2]["charge"] = -2
        t[-1]["record"] = "HETATM"
        t[1 % len(t)]["b"] = "0.00"
    return t


def cases(tier):
    # the slow tables first, so that they overlap with the rest of the family
    yield dict(big="interleaved-99990-atoms-12-blocks", fmt="mmCIF")
    if tier != "quick":
        yield dict(big="interleaved-99987-atoms-12-blocks", fmt="mmCIF")
    for nch, idlen, resmode, serial0, icodes, models, apr in itertools.product((1, 2, 3, 62, 63), (1, 2, 4, "mix-first", "mix-last", "runs"), ("small", "9999", "10000", "12345", "negative"),
                                                                             (1, 99990, 100000, "end99999", "end100000"), (False, True, "last-chain", "first-chain"), (1, 2), (1, 2)):
      for extras in (False, True):
        if isinstance(icodes, str) and (nch not in (2, 3) or extras or isinstance(serial0, str) or apr == 2):
            continue
        if idlen == "runs" and (nch >= 62 or extras or isinstance(serial0, str) or isinstance(icodes, str) or apr == 2 or models == 2):
            continue
        if isinstance(serial0, str) and (nch >= 62 or extras or apr == 2):
            continue
        if nch >= 62 and (extras or models == 2 or apr == 2 or icodes or str(idlen).startswith("mix")):
            continue  # the chain-count limit is independent of these dimensions; keeps the 62/63-chain tables few
        if str(idlen).startswith("mix") and nch == 1:
            continue
        yield dict(nch=nch, idlen=idlen, resmode=resmode, serial0=serial0, icodes=icodes, models=models, apr=apr, extras=extras, fmt="mmCIF")
        if idlen in (1,) and resmode in ("small", "9999", "negative") and not isinstance(serial0, str) and serial0 + nch * 2 * apr * models < 99990:
            yield dict(nch=nch, idlen=idlen, resmode=resmode, serial0=serial0, icodes=icodes, models=models, apr=apr, extras=extras, fmt="PDB")
        if nch <= 2 and not extras and models == 1 and not isinstance(serial0, str):
            # a file without the optional items auth_atom_id / auth_comp_id: atom and residue names are in the label items only
            yield dict(nch=nch, idlen=idlen, resmode=resmode, serial0=serial0, icodes=icodes, models=models, apr=apr, extras=extras, fmt="mmCIF", no_auth_names=True)
        if idlen in (1, 2) and nch <= 3 and not extras:
            # the same atoms with label ids that differ from the author ids (two-character label_asym_id, own label_seq_id): only the author ids are written to PDB
            yield dict(nch=nch, idlen=idlen, resmode=resmode, serial0=serial0, icodes=icodes, models=models, apr=apr, extras=extras, fmt="mmCIF", labels=True)
    yield dict(special="pdb-blank-chain-segid", fmt="PDB")
    yield dict(special="missing-chain-id", fmt="mmCIF")
    yield dict(big="chain-10000-residues", fmt="mmCIF")
    yield dict(big="chain-10002-residues-with-icodes", fmt="mmCIF")
    if tier != "quick":
        yield dict(big="chain-9998-residues-with-icodes", fmt="mmCIF")
    if tier != "quick":
        yield dict(big="chain-9999-residues-long-id", fmt="mmCIF")
        yield dict(big="atoms-100001", fmt="mmCIF")
        yield dict(big="atoms-99998-plus-2-chains", fmt="mmCIF")


def composite(offence, relation, water=False):
    """Part A (within the limits) followed by part B (exceeding one limit), B being further chains of the same model or a second model.
    Returns (table, number of atoms of part A)."""
    A = make_table(2, 1, "small", 1, False, 1, 2)
    if offence == "many":
        # part A: 4 long-named chains (needs renaming, a fit exists); part B: 66 further long-named chains - the parent has 70 chains, more than PDB allows
        ids = chain_ids(70, 2)
        A = make_table(4, 2, "small", 1, False, 1, 1)
        B = make_table(66, 2, "small", len(A) + 1, False, 1, 1)
        for k, b in enumerate(B):
            b["chain"] = ids[4 + k // 2]
    elif offence == "chain":
        B = make_table(2, 2, "small", len(A) + 1, False, 1, 2)
    elif offence == "resseq":
        B = make_table(2, 1, "12345", len(A) + 1, False, 1, 2)
    else:
        B = make_table(2, 1, "small", 100000, False, 1, 2)
    for b in B:
        if relation == "model":
            b["model"] = 2
        elif len(b["chain"]) == 1:
            b["chain"] = {"A": "C", "B": "D"}[b["chain"]]
        b["y"] = "%.3f" % (float(b["y"]) + 50.0)
        if water:
            b["resname"] = "HOH"
            b["record"] = "HETATM"
            b["name"] = "O" if b["name"] == "P" else "O2"
            b["element"] = "O"
    return A + B, len(A)


def slice_cases(tier):
    """Row subsets of a parsed table (what splitter/unifier hand to fit_to_pdb): the part within the limits must be recognised as fitting and come
    back unchanged although the parent table exceeded a limit; the offending part must be renamed properly on its own."""
    for offence in ("chain", "resseq", "serial", "many"):
        for relation in ("chains", "model"):
            for how in ("mask", "iloc", "groupby"):
                for part in ("A", "B"):
                    if offence == "many" and how == "groupby" and relation == "chains":
                        continue  # the groupby slice picks the first two chains; 'many' is about four of seventy
                    yield dict(slice=how, offence=offence, relation=relation, part=part, fmt="mmCIF")


def tool_cases(tier):
    # unifier.main on several files that disagree on residue numbers: the majority numbering (beyond 9999) is imposed on the third file, then every file is fitted
    for resmode in ("10000", "12345", "small"):
        yield dict(tool="unifier", multi=resmode, fmt="mmCIF")
    yield dict(tool="splitter", composite=["many", "model", False], fmt="mmCIF")
    for offence in ("chain", "resseq", "serial"):
        yield dict(tool="splitter", composite=[offence, "model", False], fmt="mmCIF")
        yield dict(tool="unifier", composite=[offence, "chains", True], fmt="mmCIF")
    """splitter.main / unifier.main with -f PDB on mmCIF input that may need fitting (the tools named in the property's observe_at)."""
    for nch, idlen, resmode, serial0, icodes, models in itertools.product((1, 2, 3), (1, 2, 4, "mix-first", "mix-last"), ("small", "9999", "10000", "12345", "negative"),
                                                                          (1, 99990, 100000), (False, True), (1, 2)):
        if str(idlen).startswith("mix") and nch == 1:
            continue
        if tier == "quick" and nch == 3 and idlen in (1, 4):
            continue
        base = dict(nch=nch, idlen=idlen, resmode=resmode, serial0=serial0, icodes=icodes, models=models, apr=2, extras=False, fmt="mmCIF")
        yield dict(base, tool="splitter")
        if idlen == 1 and nch == 2:
            yield dict(base, tool="splitter", labels=True)
        if models == 1:
            yield dict(base, tool="unifier")
    for nch in (62, 63):
        for idlen in (1, 2):
            base = dict(nch=nch, idlen=idlen, resmode="small", serial0=1, icodes=False, models=1, apr=1, extras=False, fmt="mmCIF")
            yield dict(base, tool="splitter")
            yield dict(base, tool="unifier")
    # two models of which the first fits on its own (its last atom is serial 99999) and the second does not: every model is fitted by itself
    for nch, idlen, icodes in itertools.product((1, 2), (1, 2), (False, True)):
        yield dict(nch=nch, idlen=idlen, resmode="small", serial0="m1end99999", icodes=icodes, models=2, apr=2, extras=False, fmt="mmCIF", tool="splitter")
    yield dict(big="chain-10000-residues", fmt="mmCIF", tool="splitter")
    if tier != "quick":
        yield dict(big="chain-10000-residues", fmt="mmCIF", tool="unifier")  # ~1 min: the unifier walks every residue


def families(tier):
    return [("tables", lambda: cases(tier), 1), ("slices", lambda: slice_cases(tier), 1), ("tools", lambda: tool_cases(tier), 1)]


def big_table(kind):
    t = []
    if kind == "chain-10000-residues":
        for i in range(10000):
            t.append(enumio.atom(i + 1, "P", "G", "AA", i + 1, "1.000", "2.000", "3.000", element="P"))
    elif kind == "chain-10002-residues-with-icodes":
        # 5001 numbers, each with and without insertion code: more than 9999 residues but fewer than 9999 distinct numbers
        for i in range(5001):
            for ic in (None, "A"):
                t.append(enumio.atom(len(t) + 1, "P", "G", "AA", i + 1, "1.000", "2.000", "3.000", element="P", icode=ic))
    elif kind == "chain-9998-residues-with-icodes":
        for i in range(4999):
            for ic in (None, "A"):
                t.append(enumio.atom(len(t) + 1, "P", "G", "AA", i + 20000, "1.000", "2.000", "3.000", element="P", icode=ic))
    elif kind == "chain-9999-residues-long-id":
        for i in range(9999):
            t.append(enumio.atom(i + 1, "P", "G", "AA", i + 5000, "1.000", "2.000", "3.000", element="P"))
    elif kind.startswith("interleaved-"):
        # two long-named chains listed in alternating blocks: every block boundary costs the writer a TER serial
        natoms, blocks = int(kind.split("-")[1]), int(kind.split("-")[3])
        per = natoms // blocks
        for i in range(natoms):
            b = min(i // per, blocks - 1)
            t.append(enumio.atom(i + 1, "P", "G", ["AA", "BB"][b % 2], i % 9000 + 1, "1.000", "2.000", "3.000", element="P"))
    elif kind == "atoms-100001":
        for i in range(100001):
            t.append(enumio.atom(i + 1, "P", "G", "A", i % 9000 + 1, "1.000", "2.000", "3.000", element="P"))
    else:
        for i in range(99998):
            t.append(enumio.atom(i + 1, "P", "G", "AB"[i * 2 // 99998] * 2, i % 9000 + 1, "1.000", "2.000", "3.000", element="P"))
    return t


def ref_fits(t):
    return all(a["serial"] <= 99999 and a["chain"] is not None and len(a["chain"]) == 1 and a["resseq"] <= 9999 for a in t)


def ref_feasible(t):
    chains = []
    perchain = {}
    for a in t:
        if a["chain"] not in perchain:
            chains.append(a["chain"])
            perchain[a["chain"]] = set()
        perchain[a["chain"]].add((a["resseq"], a["icode"]))
    if len(t) + len(chains) > 99999:
        return False, "atoms+chains"
    # every chain run needs a TER record with its own serial: with interleaved chains there are more runs than chains
    runs = sum(1 for k, a in enumerate(t) if k == 0 or (a["model"], a["chain"]) != (t[k - 1]["model"], t[k - 1]["chain"]))
    if len(t) + runs > 100000:
        return False, "atoms+chain-runs"
    if len(t) + runs == 100000 and runs > len(chains):
        return None, "atoms+chain-runs==100000"  # only the closing TER would not fit: the property does not decide this
    if len(chains) > 62:
        return False, "chains"
    if max(len(v) for v in perchain.values()) > 9999:
        return False, "residues"
    return True, None


def run_case(case):
    import warnings

    warnings.simplefilter("ignore")
    from rnapolis import parser_v2

    from mc.props.c09 import df_view

    nA = None
    if case.get("multi"):
        from rnapolis import parser_v2 as _p2
        from mc.props.c09 import df_view as _dv

        return run_unifier_multi(case, _p2, _dv)
    if case.get("special") == "pdb-blank-chain-segid":
        # CHARMM-style PDB text: the chain column is blank, columns 73-76 carry a segment identifier. The table has ONE chain (blank) and fits.
        t = make_table(2, 1, "small", 1, False, 1, 2)
        for k, a in enumerate(t):
            a["segid"] = "RNA" + a["chain"]
            a["resseq"] += 10 * (a["chain"] != "A")
            a["chain"] = " "
    elif case.get("special") == "missing-chain-id":
        # three chains of which the middle one has no author chain identifier (auth_asym_id '?'), next to a two-character one: a renaming is needed, and the
        # atoms without identifier are one chain of their own
        t = make_table(3, 2, "small", 1, False, 1, 2)
        mid = sorted({a["chain"] for a in t})[1]
        for a in t:
            if a["chain"] == mid:
                a["chain"] = None
    elif "big" in case:
        t = big_table(case["big"])
    elif "composite" in case:
        t, nA = composite(*case["composite"])
    elif "slice" in case:
        t, nA = composite(case["offence"], case["relation"])
    else:
        t = make_table(case["nch"], case["idlen"], case["resmode"], case["serial0"], case["icodes"], case["models"], case["apr"], case.get("extras", False))
    out = []
    if "tool" in case:
        return run_tool(case, t, parser_v2, df_view)
    if case["fmt"] == "PDB":
        r = observe(parser_v2.parse_pdb_atoms, enumio.emit_pdb(t))
    else:
        r = observe(parser_v2.parse_cif_atoms, enumio.emit_cif(t, label_differs=bool(case.get("labels")), omit_items=("auth_atom_id", "auth_comp_id") if case.get("no_auth_names") else ()))
    if r[0] == "exc":
        return dict(nontrivial=True, outcome="parse-exc", violations=[viol("parse:" + r[1], "parser raised " + r[2])])
    df = r[1]
    if "slice" in case:
        # the harness takes the row subset the way the tools do; attrs are re-set as splitter.main does
        fmt_attr = df.attrs.get("format")
        if case["slice"] == "iloc":
            df = df.iloc[:nA] if case["part"] == "A" else df.iloc[nA:]
        elif case["slice"] == "mask":
            import numpy as np
            mask = np.arange(len(df)) < nA
            df = df[mask if case["part"] == "A" else ~mask]
        else:
            col = "pdbx_PDB_model_num" if case["relation"] == "model" else "auth_asym_id"
            groups = [g.copy() for _, g in df.groupby(col, observed=True, sort=False)]
            if case["relation"] == "model":
                df = groups[0] if case["part"] == "A" else groups[1]
            else:
                import pandas as pd
                df = pd.concat(groups[:2] if case["part"] == "A" else groups[2:])
        df.attrs["format"] = fmt_attr
        t = t[:nA] if case["part"] == "A" else t[nA:]
    fits = ref_fits(t)
    feasible, why = ref_feasible(t)
    if feasible is None:
        return dict(nontrivial=False, outcome="undecided:" + why, violations=[], undecided=True)
    c = observe(parser_v2.can_write_pdb, df)
    if c[0] == "exc":
        out.append(viol("can_write_pdb:" + c[1], "can_write_pdb raised " + c[2]))
    elif bool(c[1]) != fits:
        out.append(viol("can_write_pdb:wrong:%s" % ("says-fits" if c[1] else "says-no-fit"), "can_write_pdb=%s but the table %s the limits" % (c[1], "is within" if fits else "exceeds"), c[1], fits))
    f = observe(parser_v2.fit_to_pdb, df)
    if fits:
        outcome = "already-fits"
        if f[0] == "exc":
            out.append(viol("fit:already-fits-raises:" + f[1], "fit_to_pdb raised %s on a table that already fits" % f[2]))
        elif f[1] is not df:
            out.append(viol("fit:already-fits-not-same-object", "a fitting table was not returned unchanged", None, None))
        elif case.get("special") or case["fmt"] == "PDB":
            # 'the fitted table can be written as PDB and read back to the same structure' - also when nothing had to be renamed
            check_fitted(t, f[1], parser_v2, df_view, out)
    elif not feasible:
        outcome = "refusal:" + why
        if f[0] == "ok":
            out.append(viol("fit:no-refusal:" + why, "no fit exists (%s) but fit_to_pdb returned a table" % why, None, "ValueError"))
        elif not f[1].startswith("exception:ValueError"):
            out.append(viol("fit:refusal-wrong-exception:%s:%s" % (why, f[1]), "no fit exists (%s) but fit_to_pdb raised %s" % (why, f[2]), f[2], "ValueError"))
    else:
        outcome = "renaming"
        if f[0] == "exc":
            if f[1].startswith("exception:ValueError"):
                out.append(viol("fit:refused-feasible", "a fit exists but fit_to_pdb raised %s" % f[2], f[2], "a fitted table"))
            else:
                out.append(viol("fit-renaming-branch:" + f[1], "a fit exists but fit_to_pdb raised %s" % f[2], f[2], "a fitted table"))
        else:
            check_fitted(t, f[1], parser_v2, df_view, out)
    u = {}
    for v in out:
        u.setdefault(v["signature"], v)
    return dict(nontrivial=not fits, outcome=outcome, violations=list(u.values()))


def check_fitted(t, fitted, parser_v2, df_view, out):
    from mc.props.c09 import norm_view

    r = observe(df_view, fitted)
    if r[0] == "exc":
        out.append(viol("fitted:unreadable", "fitted table cannot be read column by column: " + r[2]))
        return
    got = norm_view(r[1])
    want = norm_view(enumio.table_view(t))
    if len(got) != len(want):
        out.append(viol("fitted:atom-count", "fitted table has %d atoms, input %d" % (len(got), len(want))))
        return
    F = enumio.FIELDS
    chain_map, res_map = {}, {}
    for g, w in zip(got, want):
        for k, fld in enumerate(F):
            if fld in ("serial", "chain", "resseq", "icode"):
                continue
            if g[k] != w[k]:
                out.append(viol("fitted:field-changed:" + fld, "fitted table changed %s of atom %s: %r -> %r" % (fld, w[1], w[k], g[k])))
                return
        gs, gc, gr, gi = g[1], g[5], g[6], g[7]
        if gs is None or gs > 99999 or gs < 1:
            out.append(viol("fitted:serial-limit", "serial %r outside PDB limits" % gs))
            return
        if (gc is None or len(gc) != 1) and not (gc is None and w[5] is None):  # a blank chain identifier stays blank
            out.append(viol("fitted:chain-limit", "chain id %r is not one character" % gc))
            return
        if gr is None or gr > 9999:
            out.append(viol("fitted:resseq-limit", "residue number %r outside PDB limits" % gr))
            return
        wc = w[5]
        if chain_map.setdefault(wc, gc) != gc:
            out.append(viol("fitted:chain-grouping", "chain %r mapped to two ids" % wc))
            return
        key = (wc, w[6], w[7])
        if res_map.setdefault(key, (gc, gr, gi)) != (gc, gr, gi):
            out.append(viol("fitted:residue-grouping", "residue %r mapped to two identities" % (key,)))
            return
    if len(set(chain_map.values())) != len(chain_map):
        out.append(viol("fitted:chain-not-injective", "two chains share a new id", chain_map, None))
    if len(set(res_map.values())) != len(res_map):
        out.append(viol("fitted:residue-not-injective", "two residues share a new identity", None, None))
    serials = [g[1] for g in got]
    if len(set(serials)) != len(serials):
        out.append(viol("fitted:serial-repeated", "serial numbers repeat", None, None))
    w = observe(parser_v2.write_pdb, fitted)
    if w[0] == "exc":
        out.append(viol("fitted:write_pdb:" + w[1], "write_pdb of the fitted table raised " + w[2]))
        return
    rb = observe(parser_v2.parse_pdb_atoms, w[1])
    if rb[0] == "exc":
        out.append(viol("fitted:read-back:" + rb[1], "reading the written fitted table raised " + rb[2]))
        return
    back = norm_view(df_view(rb[1]))
    if back != got:
        out.append(viol("fitted:pdb-roundtrip", "written and re-read fitted table differs", None, None))


def check_renamed(want, got, out, prefix, ordered, identity=False):
    """want/got: normalised views. got must be want up to serial renumbering and a one-to-one, grouping-preserving chain/residue renaming, within PDB limits."""
    if len(got) != len(want):
        out.append(viol(prefix + ":atom-count", "output has %d atoms, input %d" % (len(got), len(want))))
        return
    if not ordered:
        key = lambda r: (r[15], r[8], r[9], r[10])
        if len(set(map(key, want))) != len(want):
            return  # coordinates not unique: cannot match atoms without order (not generated)
        gi = {key(r): r for r in got}
        if set(gi) != set(map(key, want)):
            out.append(viol(prefix + ":atoms-differ", "output atoms (by model and coordinates) differ from the input atoms"))
            return
        got = [gi[key(r)] for r in want]
    F = enumio.FIELDS
    chain_map, res_map = {}, {}
    for g, w in zip(got, want):
        for k, fld in enumerate(F):
            if fld in ("serial", "chain", "resseq", "icode"):
                continue
            if g[k] != w[k]:
                out.append(viol(prefix + ":field-changed:" + fld, "output changed %s of atom %s: %r -> %r" % (fld, w[1], w[k], g[k])))
                return
        gs, gc, gr, gi_ = g[1], g[5], g[6], g[7]
        if gs is None or gs > 99999 or gs < 1:
            out.append(viol(prefix + ":serial-limit", "serial %r outside PDB limits" % gs))
            return
        if gc is None or len(gc) != 1:
            out.append(viol(prefix + ":chain-limit", "chain id %r is not one character" % gc))
            return
        if gr is None or gr > 9999:
            out.append(viol(prefix + ":resseq-limit", "residue number %r outside PDB limits" % gr))
            return
        if identity and (gc, gr, gi_) != (w[5], w[6], w[7]):
            out.append(viol(prefix + ":fitting-table-renamed", "the table is within the limits but %r was written as %r" % ((w[5], w[6], w[7]), (gc, gr, gi_))))
            return
        if chain_map.setdefault(w[5], gc) != gc:
            out.append(viol(prefix + ":chain-grouping", "chain %r mapped to two ids" % w[5]))
            return
        key2 = (w[5], w[6], w[7])
        if res_map.setdefault(key2, (gc, gr, gi_)) != (gc, gr, gi_):
            out.append(viol(prefix + ":residue-grouping", "residue %r mapped to two identities" % (key2,)))
            return
    if len(set(chain_map.values())) != len(chain_map):
        out.append(viol(prefix + ":chain-not-injective", "two chains share a new id", chain_map, None))
    if len(set(res_map.values())) != len(res_map):
        out.append(viol(prefix + ":residue-not-injective", "two residues share a new identity", None, None))
    serials = [g[1] for g in got]
    if len(set(serials)) != len(serials):
        out.append(viol(prefix + ":serial-repeated", "serial numbers repeat", None, None))


def run_tool(case, t, parser_v2, df_view):
    """splitter.main / unifier.main -f PDB in-process on the emitted mmCIF text: per model, a PDB file that is the model up to a proper renaming, or no file and an
    error message exactly when the reference says no fit exists; never an exception."""
    import contextlib
    import io
    import os
    import shutil
    import sys

    from mc.engine import scratch_dir
    from mc.props.c09 import norm_view

    tool = case["tool"]
    out = []
    sd = scratch_dir()
    src = os.path.join(sd, "tool_in.cif")
    with open(src, "w") as f:
        f.write(enumio.emit_cif(t, label_differs=bool(case.get("labels"))))
    od = os.path.join(sd, "tool_out")
    shutil.rmtree(od, ignore_errors=True)
    if tool == "splitter":
        from rnapolis import splitter as mod
    else:
        from rnapolis import unifier as mod
    old = sys.argv
    sys.argv = [tool, "-o", od, "-f", "PDB", src]
    buf, err = io.StringIO(), io.StringIO()
    try:
        with contextlib.redirect_stdout(buf), contextlib.redirect_stderr(err):
            r = observe(mod.main)
    finally:
        sys.argv = old
    if r[0] == "exc" and not r[1].startswith("exception:SystemExit"):
        return dict(nontrivial=True, outcome=tool + ":raises", violations=[viol("%s:%s" % (tool, r[1]), "%s.main raised %s" % (tool, r[2]))])
    if tool == "unifier":
        t = [a for a in t if a["resname"] in ("A", "C", "G", "U")]  # the unifier keeps standard nucleotides only
    models = []
    for a in t:
        if a["model"] not in models:
            models.append(a["model"])
    outcomes = []
    for m in models:
        tm = [a for a in t if a["model"] == m]
        fits = ref_fits(tm)
        feasible, why = ref_feasible(tm)
        if fits:
            feasible, why = True, None  # a table within the limits needs no renaming, whatever its chain count
        name = "tool_in_model_%d.pdb" % m if tool == "splitter" else "tool_in.pdb"
        path = os.path.join(od, name)
        exists = os.path.exists(path)
        if not feasible:
            outcomes.append("refusal:" + why)
            if exists and open(path).read().strip():
                out.append(viol("%s:no-refusal:%s" % (tool, why), "no fit exists (%s) but %s wrote %s" % (why, tool, name), None, "no file, an error message"))
            elif "rror" not in err.getvalue():
                out.append(viol("%s:silent-refusal:%s" % (tool, why), "no fit exists (%s); %s wrote nothing and reported nothing" % (why, tool)))
            continue
        outcomes.append("already-fits" if fits else "renaming")
        if not exists:
            out.append(viol("%s:missing-file:%s" % (tool, "fits" if fits else "needs-fit"), "no output file %s although a fit exists; stderr: %s" % (name, err.getvalue()[:300])))
            continue
        txt = open(path).read()
        rb = observe(parser_v2.parse_pdb_atoms, txt)
        if rb[0] == "exc":
            out.append(viol("%s:read-back:%s" % (tool, rb[1]), "reading %s raised %s" % (name, rb[2])))
            continue
        got = norm_view(df_view(rb[1]))
        want = norm_view(enumio.table_view(tm))
        if tool == "unifier":
            # the unifier writes one structure without MODEL records
            want = [w[:15] + (1,) for w in want]
            got = [g[:15] + (1,) for g in got]
        check_renamed(want, got, out, tool + ":out", ordered=(tool == "splitter"), identity=fits)
        atoms, problems, events = enumio.read_pdb_layout(txt)
        problems += enumio.check_pdb_structure(events)
        if problems:
            from mc.props.c09 import _layout_kind
            out.append(viol("%s:layout:%s" % (tool, _layout_kind(problems[0])), "%s PDB output: %s" % (tool, "; ".join(problems[:3]))))
    u = {}
    for v in out:
        u.setdefault(v["signature"], v)
    return dict(nontrivial="renaming" in outcomes or any(o.startswith("refusal") for o in outcomes), outcome="%s:%s" % (tool, "+".join(outcomes)), violations=list(u.values()))


def run_unifier_multi(case, parser_v2, df_view):
    """Three files with the same two-chain, four-residue content; two number their residues per case['multi'] (beyond 9999 unless 'small'), the third
    from 1. unifier.main -f PDB imposes the majority numbering on the third and writes all three: each output must be a layout-clean PDB file that is
    its own input up to a one-to-one, grouping-preserving renaming (or be refused with a message when no fit exists - none is infeasible here)."""
    import contextlib
    import io
    import os
    import shutil
    import sys

    from rnapolis import unifier

    from mc.engine import scratch_dir
    from mc.props.c09 import _layout_kind, norm_view

    out = []
    sd = scratch_dir()
    od = os.path.join(sd, "uni_out")
    shutil.rmtree(od, ignore_errors=True)
    tables, paths = [], []
    for k, mode in enumerate((case["multi"], case["multi"], "small")):
        t = make_table(2, 1, mode, 1, False, 1, 2)
        for a in t:
            a["x"] = "%.3f" % (float(a["x"]) + 40.0 * k)
        p = os.path.join(sd, "uni_in%d.cif" % k)
        with open(p, "w") as f:
            f.write(enumio.emit_cif(t))
        tables.append(t)
        paths.append(p)
    old = sys.argv
    sys.argv = ["unifier", "-o", od, "-f", "PDB"] + paths
    err = io.StringIO()
    try:
        with contextlib.redirect_stdout(io.StringIO()), contextlib.redirect_stderr(err):
            r = observe(unifier.main)
    finally:
        sys.argv = old
    if r[0] == "exc" and not r[1].startswith("exception:SystemExit"):
        return dict(nontrivial=True, outcome="unifier-multi:raises", violations=[viol("unifier-multi:" + r[1], "unifier.main on three files raised " + r[2])])
    for k, t in enumerate(tables):
        path = os.path.join(od, "uni_in%d.pdb" % k)
        if not os.path.exists(path):
            out.append(viol("unifier-multi:missing-file", "no output for input file %d although a fit exists; stderr: %s" % (k, err.getvalue()[:300])))
            continue
        txt = open(path).read()
        atoms, problems, events = enumio.read_pdb_layout(txt)
        problems += enumio.check_pdb_structure(events)
        if problems:
            out.append(viol("unifier-multi:layout:" + _layout_kind(problems[0]), "unifier PDB output for file %d: %s" % (k, "; ".join(problems[:3]))))
            continue
        rb = observe(parser_v2.parse_pdb_atoms, txt)
        if rb[0] == "exc":
            out.append(viol("unifier-multi:read-back:" + rb[1], "reading the output for file %d raised %s" % (k, rb[2])))
            continue
        got = [g[:15] + (1,) for g in norm_view(df_view(rb[1]))]
        want = [w[:15] + (1,) for w in norm_view(enumio.table_view(t))]
        check_renamed(want, got, out, "unifier-multi:out", ordered=False)
    u = {}
    for v in out:
        u.setdefault(v["signature"], v)
    return dict(nontrivial=True, outcome="unifier-multi:" + case["multi"], violations=list(u.values()))
