"""C16 - all_dot_brackets is exactly the set of greedy-stable assignments (form S)."""
from mc import enum2d
from mc.props.common2d import build, call, check_dbn, info, seq_of, viol
from mc.ref import ref2d

ID = "C16"
LEVEL = "exploration"
RULE = (
    "every partial matching on 1..N (M), every chord diagram of K stems x lengths x gaps (D), explicit 7- and 8-stem conflict graphs; "
    "all_dot_brackets decoded and compared AS A SET of stem-level assignments with an independent backtracking enumeration of the "
    "proper colourings in which every stem sits on the lowest level not taken by a crossing stem of a lower level, product over "
    "components; plus: no repeated string, contains dot_bracket and fcfs, equals [fcfs] with only round brackets when nothing crosses. "
    "non-trivial = at least two crossing stems; distinct = distinct input."
)
ASSUMPTIONS = ["groups of mutually crossing stems have at most 8 members (the implementation is factorial in group size)"]


def BOUNDS(tier):
    q = tier == "quick"
    return dict(M_N=10 if q else 11, D_K=4 if q else 5, D_lengths=[1, 2], D_gaps=[0, 1],
                D6="none" if q else "all 10395 diagrams x all-ones lengths x gap 0",
                special="ladder, path, star, two independent ladders; 7 stems%s" % ("" if q else " and 8 stems"))


def _from_arcs(arcs, name):
    K = len(arcs)
    c = enum2d.chord_structure(tuple(arcs), [1] * K, [0] * (2 * K + 1))
    c["special"] = name
    return c


def _special(kmax):
    for K in range(7, kmax + 1):
        yield _from_arcs([(i, K + i) for i in range(K)], "ladder%d" % K)
        # path: arc i crosses arc i+1 only: (0,2),(1,4),(3,6),...
        pts = []
        e = 0
        arcs = []
        # construct path: a_i = 2i-1 (a_0=0), b_i = 2i+2 ... endpoints 0..2K-1
        opens = [0] + [2 * i - 1 for i in range(1, K)]
        closes = [2 * i + 2 for i in range(K - 1)] + [2 * K - 1]
        yield _from_arcs(list(zip(opens, closes)), "path%d" % K)
        # star: arc 0 spans the openers of all others, which are nested-free and mutually non-crossing:
        # 0 opens, then K-1 openers ... arc 0 closes, then each closes in reverse order (nested among themselves)
        arcs = [(0, K)] + [(i, 2 * K - i) for i in range(1, K)]
        yield _from_arcs(arcs, "star%d" % K)
        # two triangles sharing a stem + path remainder: ladder3 on (a,b,c) and ladder3 on (c,d,e) is not planar-free; use two components instead
        k1 = K // 2
        k2 = K - k1
        arcs = [(i, k1 + i) for i in range(k1)] + [(2 * k1 + i, 2 * k1 + k2 + i) for i in range(k2)]
        yield _from_arcs(arcs, "two-ladders%d+%d" % (k1, k2))


def families(tier):
    q = tier == "quick"
    fams = [
        ("M", lambda: enum2d.M(10 if q else 11), 1),
        ("D", lambda: enum2d.D(4 if q else 5), 1),
        ("special", lambda: _special(7 if q else 8), 1),
    ]
    if not q:
        fams.append(("D6", lambda: enum2d.D(6, kmin=6, lens=(1,), gapvals=(0,)), 1))
    return fams


def run_case(case):
    out = []
    seq = seq_of(case)
    stems, graph, knotted, maxcomp = info(case)
    b = call("from_string", build, out, case)
    if b is None:
        return dict(nontrivial=True, outcome="build-failed", violations=out)
    al = call("all_dot_brackets", lambda: b.all_dot_brackets, out)
    if al is None:
        return dict(nontrivial=knotted, outcome="exc", violations=out)
    f = call("fcfs", lambda: b.fcfs, out)
    d = call("dot_bracket", lambda: b.dot_bracket, out) if maxcomp <= 7 or case.get("special", "").startswith(("path", "star", "two")) else None
    strs = [x.structure for x in al]
    if len(set(strs)) != len(strs):
        out.append(viol("repeated-member", "all_dot_brackets repeats a string", sorted(strs), None))
    got = set()
    for x in al:
        dec = check_dbn("member", case, seq, x, out)
        if dec is None:
            continue
        lev = ref2d.stem_levels(stems, dec)
        if None in lev:
            out.append(viol("stem-split-across-levels", "a stem is written on several levels", x.structure, stems))
            continue
        got.add(tuple(lev))
    want = ref2d.all_greedy_stable(stems, graph)
    if got != want and not any(v["signature"].startswith("member") for v in out):
        missing = sorted(want - got)
        extra = sorted(got - want)
        sig = "set-differs:" + ("missing" if missing else "") + ("+extra" if extra else "")
        out.append(viol(sig, "all_dot_brackets != greedy-stable assignments: missing=%s extra=%s (stems %s)" % (missing[:3], extra[:3], stems),
                        sorted(got)[:20], sorted(want)[:20]))
    if f is not None and f.structure not in strs:
        out.append(viol("fcfs-not-member", "fcfs notation is not in all_dot_brackets", strs[:10], f.structure))
    if d is not None and d.structure not in strs:
        out.append(viol("optimal-not-member", "dot_bracket notation is not in all_dot_brackets", strs[:10], d.structure))
    if not knotted:
        if len(al) != 1 or (f is not None and al[0].structure != f.structure) or any(ch not in ".()" for ch in strs[0]):
            out.append(viol("nested-not-single-round", "pseudoknot-free structure: expected the single round-bracket string", strs, f.structure if f else None))
    return dict(nontrivial=knotted, outcome="members=%d comp=%d" % (min(len(al), 20), maxcomp), violations=out)
