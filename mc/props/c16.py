"""C16 - all_dot_brackets is exactly the set of greedy-stable assignments (form S)."""
import itertools

from mc import enum2d
from mc.engine import observe
from mc.props.common2d import build, call, check_dbn, info, seq_of, viol
from mc.ref import ref2d

ID = "C16"
LEVEL = "exploration"
RULE = (
    "every partial matching on 1..N (M), every chord diagram of K stems x lengths x gaps (D), explicit 7- and 8-stem conflict graphs; "
    "all_dot_brackets decoded and compared AS A SET of stem-level assignments with an independent backtracking enumeration of the "
    "proper colourings in which every stem sits on the lowest level not taken by a crossing stem of a lower level, product over "
    "components; plus: no repeated string, contains dot_bracket and fcfs, equals [fcfs] with only round brackets when nothing crosses. "
    "non-trivial = at least two crossing stems; distinct = distinct input."
)
ASSUMPTIONS = ["groups of mutually crossing stems have at most 8 members (the implementation is factorial in group size)"]


def BOUNDS(tier):
    q = tier == "quick"
    return dict(M_N=10 if q else 11, D_K=4 if q else 5, D_lengths=[1, 2], D_gaps=[0, 1],
                D6="none" if q else "all 10395 diagrams x all-ones lengths x gap 0",
                special="ladder, path, star, two independent ladders; 7 and 8 stems")


def _from_arcs(arcs, name, gap=0):
    K = len(arcs)
    c = enum2d.chord_structure(tuple(arcs), [1] * K, [gap] * (2 * K + 1))
    c["special"] = name
    return c


def _special(kmax):
    for K in range(7, kmax + 1):
        yield _from_arcs([(i, K + i) for i in range(K)], "ladder%d" % K)
        # path: arc i crosses arc i+1 only: (0,2),(1,4),(3,6),...
        pts = []
        e = 0
        arcs = []
        # construct path: a_i = 2i-1 (a_0=0), b_i = 2i+2 ... endpoints 0..2K-1
        opens = [0] + [2 * i - 1 for i in range(1, K)]
        closes = [2 * i + 2 for i in range(K - 1)] + [2 * K - 1]
        yield _from_arcs(list(zip(opens, closes)), "path%d" % K)
        # star: arc 0 spans the openers of all others, which are nested-free and mutually non-crossing:
        # 0 opens, then K-1 openers ... arc 0 closes, then each closes in reverse order (nested among themselves)
        arcs = [(0, K)] + [(i, 2 * K - i) for i in range(1, K)]
        yield _from_arcs(arcs, "star%d" % K, gap=1)  # gap 1: without it the nested arcs stack into ONE stem and the 'star' has two stems
        # two triangles sharing a stem + path remainder: ladder3 on (a,b,c) and ladder3 on (c,d,e) is not planar-free; use two components instead
        k1 = K // 2
        k2 = K - k1
        arcs = [(i, k1 + i) for i in range(k1)] + [(2 * k1 + i, 2 * k1 + k2 + i) for i in range(k2)]
        yield _from_arcs(arcs, "two-ladders%d+%d" % (k1, k2))


def _many_groups():
    """Many stems in pseudoknots, spread over small independent groups: k H-type knots side by side (2 stems each, 2^k notations), k kissing-hairpin
    groups (3 stems each, 3^k... notations) - up to 14 / 12 conflicting stems in total while no group has more than 3 members."""
    for k in range(2, 8):
        arcs = []
        for g in range(k):
            arcs += [(4 * g, 4 * g + 2), (4 * g + 1, 4 * g + 3)]
        yield _from_arcs(arcs, "two-by-%d" % k, gap=1)
    for k in range(2, 5):
        arcs = []
        for g in range(k):
            arcs += [(6 * g, 6 * g + 2), (6 * g + 1, 6 * g + 4), (6 * g + 3, 6 * g + 5)]
        yield _from_arcs(arcs, "kissing-by-%d" % k, gap=1)


def mapping_cases(tier):
    """Knotted structures pushed through the 3D route: a synthetic N-nucleotide structure (one or two chains) + the matching as cWW pairs ->
    Mapping2D3D.all_dot_brackets / adapter.extract_secondary_structure_from_external(all_dot_brackets=True) / adapter.main --all-dot-brackets."""
    q = tier == "quick"
    k = 0
    for c in itertools.chain(enum2d.M(8 if q else 9, nmin=4), enum2d.D(3, kmin=2)):
        stems = ref2d.stems_of(c["pairs"])
        graph = ref2d.stem_graph(stems)
        if not any(graph[v] for v in graph):
            continue
        splits = [[], [c["n"] // 2]]
        if c["n"] >= 6:
            splits.append([c["n"] // 3, 2 * c["n"] // 3])  # three strands
        if c["n"] >= 8:
            splits.append([1, 3, c["n"] - 2])  # four strands of unequal lengths
        for split in splits:
            k += 1
            yield dict(c, mapping=True, split=split, cli=(k % (8 if q else 3) == 0))


CORPUS_Q = ["1ehz-assembly-1.cif", "4qln.cif", "1E7K_1_C.cif", "1A1T_1_B.cif", "6g90_1.cif", "1HMH_1_E.cif"]
CORPUS_T = CORPUS_Q + ["4qln.pdb", "1DFU_1_M-N.cif", "4WTI_1_T-P.cif", "8btk_B7.cif", "1a9n.cif", "488d.pdb", "1gid.cif.gz", "6INQ.cif", "1E7K_1_C_modified.cif"]


def corpus_cases(tier):
    """The annotator route (third observation point): real structures through extract_secondary_structure(all_dot_brackets=True) and annotator.main -a."""
    for f in (CORPUS_Q if tier == "quick" else CORPUS_T):
        for gaps in (False, True):
            yield dict(file=f, gaps=gaps)


def families(tier):
    q = tier == "quick"
    fams = [
        ("annotator", lambda: corpus_cases(tier), 1),
        ("mapping", lambda: mapping_cases(tier), 1),
        ("M", lambda: enum2d.M(10 if q else 11), 1),
        ("D", lambda: enum2d.D(4 if q else 5), 1),
        ("special", lambda: _special(8), 1),
        ("many-groups", _many_groups, 1),
    ]
    if not q:
        fams.append(("D6", lambda: enum2d.D(6, kmin=6, lens=(1,), gapvals=(0,)), 1))
    return fams


def _mapping_structure(case):
    """N nucleotides 25 A apart (no contacts, no O3'-P links); paired positions get G/C so that every pair is canonical, the rest A."""
    import numpy as np

    from mc import enum3d
    from mc.props import ann_common as ac

    n = case["n"]
    letters = ["A"] * n
    for i, j in case["pairs"]:
        letters[i - 1], letters[j - 1] = "G", "C"
    specs = []
    for k in range(n):
        chain = "ABCD"[sum(1 for b in case["split"] if k >= b)]
        atoms = [(nm, q + np.array([25.0 * k, 0.0, 0.0])) for nm, q in enum3d.origin(letters[k])]
        specs.append((chain, k + 1, None, letters[k], letters[k], atoms))
    return ac.build_structure(specs), letters, specs


def _strands_to_structure(text):
    import re

    blocks = re.findall(r">strand_(\S*)\n(\S*)\n(\S*)", text)
    return "".join(b[1] for b in blocks), "".join(b[2] for b in blocks), [b[0] for b in blocks]


def run_mapping(case):
    from rnapolis.adapter import extract_secondary_structure_from_external
    from rnapolis.common import BaseInteractions, BasePair, LeontisWesthof, Residue, Saenger
    from rnapolis.tertiary import Mapping2D3D

    out = []
    stems, graph, knotted, maxcomp = info(case)
    s3, letters, specs = _mapping_structure(case)
    nts = list(s3.residues)
    bps = [BasePair(Residue(nts[i - 1].label, nts[i - 1].auth), Residue(nts[j - 1].label, nts[j - 1].auth), LeontisWesthof.cWW, Saenger.XIX) for i, j in case["pairs"]]
    want = ref2d.all_greedy_stable(stems, graph)
    seq = "".join(letters)
    chains = list("ABCD"[: len(case["split"]) + 1])

    def judge(where, texts):
        if len(set(texts)) != len(texts):
            out.append(viol(where + ":repeated-member", where + " repeats a notation", texts[:10], None))
        got = set()
        for t in texts:
            sq, st, ch = _strands_to_structure(t)
            if sq != seq or ch != chains or len(st) != len(seq):
                out.append(viol(where + ":strands", "%s: strands do not concatenate to the sequence / chains" % where, t, (seq, chains)))
                return
            dec, probs = ref2d.decode(st)
            if probs or sorted(map(tuple, dec)) != sorted(map(tuple, case["pairs"])):
                out.append(viol(where + ":decoded-pairs-differ", "%s: member does not decode to the input pairs %s" % (where, case["pairs"]), st, None))
                return
            lev = ref2d.stem_levels(stems, dec)
            if None in lev:
                out.append(viol(where + ":stem-split-across-levels", "a stem is written on several levels", st, stems))
                return
            got.add(tuple(lev))
        if got != want:
            missing, extra = sorted(want - got), sorted(got - want)
            out.append(viol("%s:set-differs:%s%s" % (where, "missing" if missing else "", "+extra" if extra else ""),
                            "%s != greedy-stable assignments: missing=%s extra=%s (stems %s)" % (where, missing[:3], extra[:3], stems), sorted(got)[:20], sorted(want)[:20]))

    def judge_flat(where, structs):
        """A list of notations of the whole BPSEQ (no strand headers)."""
        if structs is None:
            return
        if len(set(structs)) != len(structs):
            out.append(viol(where + ":repeated-member", where + " repeats a notation", structs[:10], None))
        got = set()
        for st in structs:
            dec, probs = ref2d.decode(st)
            if probs or len(st) != len(seq) or sorted(map(tuple, dec)) != sorted(map(tuple, case["pairs"])):
                out.append(viol(where + ":decoded-pairs-differ", "%s: member does not decode to the input pairs %s" % (where, case["pairs"]), st, None))
                return
            lev = ref2d.stem_levels(stems, dec)
            if None in lev:
                out.append(viol(where + ":stem-split-across-levels", "a stem is written on several levels", st, stems))
                return
            got.add(tuple(lev))
        if got != want:
            missing, extra = sorted(want - got), sorted(got - want)
            out.append(viol("%s:set-differs:%s%s" % (where, "missing" if missing else "", "+extra" if extra else ""),
                            "%s != greedy-stable assignments: missing=%s extra=%s (stems %s)" % (where, missing[:3], extra[:3], stems), sorted(got)[:20], sorted(want)[:20]))

    m = call("Mapping2D3D", lambda: Mapping2D3D(s3, bps, [], False), out)
    al = call("Mapping2D3D.all_dot_brackets", lambda: list(m.all_dot_brackets), out) if m is not None else None
    if al is not None:
        judge("mapping", al)
        db = call("Mapping2D3D.dot_bracket", lambda: m.dot_bracket, out)
        if db is not None and db not in al:
            out.append(viol("mapping:optimal-not-member", "Mapping2D3D.dot_bracket is not a member of Mapping2D3D.all_dot_brackets", al[:10], db))
        # the other observation points of the same object, asked afterwards: the list of the BPSEQ the mapping holds, and the mapping's list once more
        judge_flat("mapping.bpseq-after-mapping", call("Mapping2D3D.bpseq.all_dot_brackets", lambda: [x.structure for x in m.bpseq.all_dot_brackets], out))
        al2 = call("Mapping2D3D.all_dot_brackets (second call)", lambda: list(m.all_dot_brackets), out)
        if al2 is not None and al2 != al:
            out.append(viol("mapping:second-call-differs", "Mapping2D3D.all_dot_brackets answers differently when asked again", al2[:10], al[:10]))
        # and in the other order on a second object: the BPSEQ's list first, then the mapping's
        m2 = call("Mapping2D3D", lambda: Mapping2D3D(s3, bps, [], False), out)
        if m2 is not None:
            judge_flat("mapping.bpseq-before-mapping", call("Mapping2D3D.bpseq.all_dot_brackets", lambda: [x.structure for x in m2.bpseq.all_dot_brackets], out))
            al3 = call("Mapping2D3D.all_dot_brackets (after bpseq)", lambda: list(m2.all_dot_brackets), out)
            if al3 is not None:
                judge("mapping-after-bpseq", al3)
    ext = call("adapter.extract", lambda: extract_secondary_structure_from_external(s3, BaseInteractions(bps, [], [], [], []), None, False, True), out)
    if ext is not None:
        judge("adapter", list(ext[1]))
        if al is not None and list(ext[1]) != al:
            out.append(viol("adapter:differs-from-mapping", "extract_secondary_structure_from_external(all_dot_brackets=True) != Mapping2D3D.all_dot_brackets", list(ext[1])[:10], al[:10]))
    if case.get("cli"):
        _mapping_cli(case, specs, al, out)
    u = {}
    for v in out:
        u.setdefault(v["signature"], v)
    return dict(nontrivial=True, outcome="mapping:members=%d strands=%d" % (min(len(al or []), 20), len(case["split"]) + 1), violations=list(u.values()))


def _mapping_cli(case, specs, al, out):
    """adapter.main --tool fr3d --all-dot-brackets on emitted files: stdout must be exactly the members, one after another."""
    import contextlib
    import io
    import os
    import sys

    from rnapolis import adapter

    from mc import enumio
    from mc.engine import observe, scratch_dir

    t = []
    serial = 1
    for chain, num, icode, rn, letter, atoms in specs:
        for nm, p in atoms:
            t.append(enumio.atom(serial, nm, rn, chain, num, "%.3f" % p[0], "%.3f" % p[1], "%.3f" % p[2], element=nm[0]))
            serial += 1
    sd = scratch_dir()
    pdb = os.path.join(sd, "c16.pdb")
    open(pdb, "w").write(enumio.emit_pdb(t))
    lines = []
    name = {k + 1: sp for k, sp in enumerate(specs)}
    for i, j in case["pairs"]:
        a, b = name[i], name[j]
        lines.append("c16|1|%s|%s|%d\tcWW\tc16|1|%s|%s|%d\t0" % (a[0], a[3], a[1], b[0], b[3], b[1]))
    ext = os.path.join(sd, "c16.fr3d")
    open(ext, "w").write("\n".join(lines) + "\n")
    old = sys.argv
    sys.argv = ["adapter", pdb, "--external", ext, "--tool", "fr3d", "--all-dot-brackets"]
    buf = io.StringIO()
    try:
        with contextlib.redirect_stdout(buf), contextlib.redirect_stderr(io.StringIO()):
            r = observe(adapter.main)
    finally:
        sys.argv = old
    if r[0] == "exc" and not r[1].startswith("exception:SystemExit"):
        out.append(viol("adapter-cli:" + r[1], "adapter.main --all-dot-brackets raised " + r[2]))
        return
    if al is not None and buf.getvalue().strip("\n") != "\n".join(al):
        out.append(viol("adapter-cli:output-differs", "adapter.main --all-dot-brackets did not print exactly Mapping2D3D.all_dot_brackets", buf.getvalue()[:400], "\n".join(al)[:400]))


def run_annotator(case):
    """extract_secondary_structure(..., all_dot_brackets=True) on a corpus structure: the returned notations, read as one structure over the BPSEQ
    the same call returns, must be exactly the greedy-stable assignments of that BPSEQ; annotator.main -a must print exactly these notations."""
    import contextlib
    import io
    import os
    import sys

    from rnapolis import annotator

    from mc import corpus
    from mc.props import ann_families as fam

    out = []
    s3 = fam.corpus_structure(case["file"])
    r = call("extract_secondary_structure", lambda: annotator.extract_secondary_structure(s3, None, case["gaps"], True), out)
    if r is None:
        return dict(nontrivial=True, outcome="annotator:exc", violations=out)
    s2d, dbs = r
    lines = [ln.split() for ln in s2d.bpseq.splitlines() if ln.strip()]
    n = len(lines)
    seq = "".join(f[1] for f in lines)
    pairs = sorted((int(f[0]), int(f[2])) for f in lines if int(f[2]) > int(f[0]))
    stems = ref2d.stems_of(pairs)
    graph = ref2d.stem_graph(stems)
    knotted = any(graph[v] for v in graph)
    maxcomp = max([len(c) for c in ref2d.components(graph)] or [0])
    if maxcomp > 8:
        return dict(nontrivial=False, outcome="annotator:group-larger-than-8", violations=out)
    want = ref2d.all_greedy_stable(stems, graph)
    dbs = list(dbs)
    got = set()
    bad = False
    if len(set(dbs)) != len(dbs):
        out.append(viol("annotator:repeated-member", "extract_secondary_structure(all_dot_brackets=True) repeats a notation (%s)" % case["file"], dbs[:6], None))
    for t in dbs:
        sq, st, ch = _strands_to_structure(t)
        if sq != seq or len(st) != n:
            out.append(viol("annotator:strands", "%s: a notation does not concatenate to the BPSEQ sequence" % case["file"], t[:300], seq))
            bad = True
            break
        dec, probs = ref2d.decode(st)
        if probs or sorted(map(tuple, dec)) != pairs:
            out.append(viol("annotator:decoded-pairs-differ", "%s: a notation does not decode to the BPSEQ pairs" % case["file"], st, None))
            bad = True
            break
        lev = ref2d.stem_levels(stems, dec)
        if None in lev:
            out.append(viol("annotator:stem-split-across-levels", "a stem is written on several levels", st, stems))
            bad = True
            break
        got.add(tuple(lev))
    if not bad and got != want:
        missing, extra = sorted(want - got), sorted(got - want)
        out.append(viol("annotator:set-differs:%s%s" % ("missing" if missing else "", "+extra" if extra else ""),
                        "%s (gaps=%s): extract_secondary_structure(all_dot_brackets=True) returned %d notation(s), the greedy-stable assignments are %d: missing=%s extra=%s"
                        % (case["file"], case["gaps"], len(got), len(want), missing[:3], extra[:3]), sorted(got)[:10], sorted(want)[:10]))
    if s2d.dotBracket not in dbs:
        out.append(viol("annotator:optimal-not-member", "%s: Structure2D.dotBracket is not among the returned notations" % case["file"], dbs[:4], s2d.dotBracket))
    # command line
    path = os.path.join(corpus.TESTS, case["file"])
    old = sys.argv
    sys.argv = ["annotator", path, "-a"] + (["-f"] if case["gaps"] else [])
    buf = io.StringIO()
    try:
        with contextlib.redirect_stdout(buf), contextlib.redirect_stderr(io.StringIO()):
            rc = observe(annotator.main)
    finally:
        sys.argv = old
    if rc[0] == "exc" and not rc[1].startswith("exception:SystemExit"):
        out.append(viol("annotator-cli:" + rc[1], "annotator.main -a raised " + rc[2]))
    elif buf.getvalue().strip("\n") != "\n".join(dbs):
        out.append(viol("annotator-cli:output-differs", "%s: annotator -a did not print exactly the notations of extract_secondary_structure(all_dot_brackets=True)" % case["file"],
                        buf.getvalue()[:400], "\n".join(dbs)[:400]))
    u = {}
    for v in out:
        u.setdefault(v["signature"], v)
    return dict(nontrivial=knotted, outcome="annotator:members=%d stems=%d" % (min(len(dbs), 20), min(len(stems), 12)), violations=list(u.values()))


def run_case(case):
    if case.get("mapping"):
        return run_mapping(case)
    if "file" in case:
        return run_annotator(case)
    out = []
    seq = seq_of(case)
    stems, graph, knotted, maxcomp = info(case)
    b = call("from_string", build, out, case)
    if b is None:
        return dict(nontrivial=True, outcome="build-failed", violations=out)
    al = call("all_dot_brackets", lambda: b.all_dot_brackets, out)
    if al is None:
        return dict(nontrivial=knotted, outcome="exc", violations=out)
    f = call("fcfs", lambda: b.fcfs, out)
    d = call("dot_bracket", lambda: b.dot_bracket, out) if maxcomp <= 7 or case.get("special", "").startswith(("path", "star", "two", "kissing")) else None
    strs = [x.structure for x in al]
    if len(set(strs)) != len(strs):
        out.append(viol("repeated-member", "all_dot_brackets repeats a string", sorted(strs), None))
    got = set()
    for x in al:
        dec = check_dbn("member", case, seq, x, out)
        if dec is None:
            continue
        lev = ref2d.stem_levels(stems, dec)
        if None in lev:
            out.append(viol("stem-split-across-levels", "a stem is written on several levels", x.structure, stems))
            continue
        got.add(tuple(lev))
    want = ref2d.all_greedy_stable(stems, graph)
    if got != want and not any(v["signature"].startswith("member") for v in out):
        missing = sorted(want - got)
        extra = sorted(got - want)
        sig = "set-differs:" + ("missing" if missing else "") + ("+extra" if extra else "")
        out.append(viol(sig, "all_dot_brackets != greedy-stable assignments: missing=%s extra=%s (stems %s)" % (missing[:3], extra[:3], stems),
                        sorted(got)[:20], sorted(want)[:20]))
    if f is not None and f.structure not in strs:
        out.append(viol("fcfs-not-member", "fcfs notation is not in all_dot_brackets", strs[:10], f.structure))
    if d is not None and d.structure not in strs:
        out.append(viol("optimal-not-member", "dot_bracket notation is not in all_dot_brackets", strs[:10], d.structure))
    if not knotted:
        if len(al) != 1 or (f is not None and al[0].structure != f.structure) or any(ch not in ".()" for ch in strs[0]):
            out.append(viol("nested-not-single-round", "pseudoknot-free structure: expected the single round-bracket string", strs, f.structure if f else None))
    return dict(nontrivial=knotted, outcome="members=%d comp=%d" % (min(len(al), 20), maxcomp), violations=out)
