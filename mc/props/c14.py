"""C14 - outputs are a deterministic function of the input (form E + cross-process conformance)."""
import json
import os
import subprocess
import sys
import time
from concurrent.futures import ThreadPoolExecutor

from mc import enum2d, seams
from mc.engine import ROOT, SRC, observe
from mc.props.common2d import build, info, viol
from mc.ref import ref2d

ID = "C14"
LEVEL = "model_checking"
RULE = (
    "two bound explorations. (1) in-process, owned nondeterminism: the name `set` in rnapolis.common and rnapolis.tertiary is rebound to "
    "a ChoiceSet whose iteration order over hash-seed-dependent elements is chosen by the explorer; every execution of the 2D outputs "
    "(all_dot_brackets list, dot_bracket, fcfs, elements, derivations) and of Mapping2D3D texts is repeated for every alternative order at "
    "every choice point up to d deviating choice points (<=4 elements: all permutations; larger: reversal, adjacent transpositions, moves "
    "to front); state = (input, schedule), transition = one choice; any output that differs from the default schedule is a CANDIDATE. "
    "(2) conformance with real interpreters: a battery computing SHA-256 of every library and CLI output for a fixed input list is run in "
    "fresh processes under each PYTHONHASHSEED of the list plus 'random', twice in one process, and once with the inputs processed in the opposite order; a VIOLATION is reported only when two "
    "real runs differ (replay = battery key + the two seeds). non-trivial = execution with at least one controlled iteration of >1 "
    "seed-dependent elements; distinct = (input, schedule)."
)
ASSUMPTIONS = [
    "set displays/comprehensions bypass the ChoiceSet seam; a static AST pass lists the iterated ones (reported in evidence as uncovered, never as violations)",
    "ints, floats and tuples of ints hash independently of PYTHONHASHSEED; their set order is a function of the insertion history",
    "hash seeds are an enumerated finite list (the property itself says 'sampled')",
]
_tier = ["quick"]


def worker_init(tier):
    _tier[0] = tier
    import rnapolis.common
    import rnapolis.tertiary

    rnapolis.common.set = seams.ChoiceSet
    rnapolis.tertiary.set = seams.ChoiceSet


def BOUNDS(tier):
    q = tier == "quick"
    return dict(in_process_inputs="knotted members of M(N<=%d), D(K<=3); Mapping2D3D on conflicting external pair lists over a 6-nt host" % (7 if q else 8),
                deviations=1 if q else 2, hash_seeds=SEEDS(tier), battery="2D: knotted M(<=6)+D(3); Mapping2D3D/adapter on 91 tied-conflict pair lists; 3D/CLI: %d corpus files" % (10 if q else 19))


def SEEDS(tier):
    return ["0", "1", "2", "3", "random"] if tier == "quick" else [str(i) for i in range(16)] + ["random", "random"]


def _knotted(gen):
    for c in gen:
        if info(c)[2]:
            yield c


def families(tier):
    q = tier == "quick"
    return [
        ("2d-schedules", lambda: _knotted(enum2d.M(7 if q else 8)), 1),
        ("2d-schedules-D", lambda: _knotted(enum2d.D(3)), 1),
        ("mapping-schedules", lambda: _mapping_cases(), 1),
    ]


def _mapping_cases():
    # conflicting canonical pairs on a small host: conflict resolution iterates sets of BasePair3D
    import itertools

    idx = [(0, 5), (1, 4), (0, 4), (1, 5), (2, 3), (0, 3)]
    for r in (2, 3):
        for combo in itertools.combinations(idx, r):
            yield dict(mapping=[list(p) for p in combo])


def outputs_2d(case):
    b = build(case)
    return [[x.structure for x in b.all_dot_brackets], b.dot_bracket.structure, b.fcfs.structure, [str(e) for g in b.elements for e in g],
            str(b.without_isolated()), str(b.without_pseudoknots())]


_host = {}


def host():
    if "s" not in _host:
        from rnapolis.parser import read_3d_structure

        with open("/repo/tests/1A1T_1_B.cif") as f:
            s = read_3d_structure(f, 1)
        from rnapolis.tertiary import Structure3D

        nts = [r for r in s.residues if r.is_nucleotide][:3] + [r for r in s.residues if r.is_nucleotide][-3:]
        _host["s"] = Structure3D(nts)
    return _host["s"]


def outputs_mapping(case):
    from rnapolis.common import BasePair, LeontisWesthof, Residue, Saenger
    from rnapolis.tertiary import Mapping2D3D

    s = host()
    bps = []
    for i, j in case["mapping"]:
        a, b = s.residues[i], s.residues[j]
        bps.append(BasePair(Residue(a.label, a.auth), Residue(b.label, b.auth), LeontisWesthof.cWW, Saenger.XIX))
    m = Mapping2D3D(s, bps, [], False)
    return [str(m.bpseq), m.dot_bracket, m.extended_dot_bracket, m.all_dot_brackets]


def run_case(case):
    if "battery_key" in case:
        return _replay_battery(case)
    fn = outputs_mapping if "mapping" in case else outputs_2d
    dmax = 1 if _tier[0] == "quick" else 2
    S = seams.SCHEDULE
    S.start({})
    r0 = observe(fn, case)
    npoints = list(S.points)
    S.stop()
    if r0[0] == "exc":
        return dict(nontrivial=True, outcome="exc", violations=[viol("schedule-default:" + r0[1], "outputs raised under the default schedule: " + r0[2])])
    base = json.dumps(r0[1])
    states = 1
    transitions = 0
    cands = 0
    plans = [{}]
    frontier = [({}, npoints)]
    for d in range(dmax):
        nxt = []
        for plan, pts in frontier:
            start = max(plan) + 1 if plan else 0
            for k in range(start, len(pts)):
                for a in range(1, pts[k]):
                    p2 = dict(plan)
                    p2[k] = a
                    S.start(p2)
                    r = observe(fn, case)
                    pts2 = list(S.points)
                    S.stop()
                    transitions += 1
                    states += 1
                    if r[0] == "exc" or json.dumps(r[1]) != base:
                        cands += 1
                    else:
                        nxt.append((p2, pts2))
        frontier = nxt
    # replay the default schedule: must reproduce
    S.start({})
    r1 = observe(fn, case)
    S.stop()
    v = []
    if r1[0] != "ok" or json.dumps(r1[1]) != base:
        # same input, same (default) iteration orders, same process, second call: a different output is exactly what the property forbids
        v.append(viol("repeated-call-differs:in-process", "the same outputs computed twice in one process under the default set orders differ for %s" % (case,),
                      r1[1] if r1[0] == "ok" else r1[2], r0[1]))
    return dict(nontrivial=any(n > 1 for n in npoints), outcome="points=%d cand=%s" % (min(len(npoints), 5), "yes" if cands else "no"), violations=v,
                states=states, transitions=transitions, traces=transitions + 2,
                extra=dict(candidates=cands, inputs_with_candidates=1 if cands else 0, choice_points=len(npoints)))


# ------------------------------------------------------------------------------------------------
# conformance with real interpreters

NPARTS = 8


def _battery(seed, tier, only=None, reverse=False, part=None):
    env = dict(os.environ)
    if seed is None:
        env.pop("PYTHONHASHSEED", None)
    else:
        env["PYTHONHASHSEED"] = seed
    cmd = [sys.executable, "-m", "mc.battery", tier, only or "-"] + (["reverse"] if reverse else []) + (["part:%d/%d" % (part, NPARTS)] if part is not None else [])
    cp = subprocess.run(cmd, cwd=ROOT, env=env, capture_output=True, text=True)
    if cp.returncode != 0:
        raise RuntimeError("battery failed (seed %s): %s" % (seed, cp.stderr[-2000:]))
    return json.loads(cp.stdout)


def post_phase(tier, seed):
    t0 = time.time()
    seeds = SEEDS(tier)
    with ThreadPoolExecutor(max_workers=16) as ex:
        fut_rev = ex.submit(_battery, "0", tier, None, True)
        fut_parts = [ex.submit(_battery, "0", tier, None, False, i) for i in range(NPARTS)]
        runs = list(ex.map(lambda s: _battery(s, tier), seeds))
        rev = fut_rev.result()
        parts = {}
        for f in fut_parts:
            parts.update(f.result())
    # repeated calls in one process: the battery module run twice in one interpreter
    code = ("import io,sys,json,contextlib\nfrom mc import battery\nres=[]\n"
            "for _ in range(2):\n b=io.StringIO()\n sys.argv=['battery',%r]\n with contextlib.redirect_stdout(b): battery.main()\n res.append(json.loads(b.getvalue()))\n"
            "print(json.dumps(res))" % tier)
    env = dict(os.environ)
    env["PYTHONHASHSEED"] = "0"
    cp = subprocess.run([sys.executable, "-c", code], cwd=ROOT, env=env, capture_output=True, text=True)
    if cp.returncode != 0:
        raise RuntimeError("in-process repetition failed: %s" % cp.stderr[-2000:])
    rep = json.loads(cp.stdout)
    viols = []
    keys = sorted(runs[0])
    differing = 0
    for k in keys:
        vals = [r.get(k) for r in runs]
        if len(set(vals)) > 1:
            differing += 1
            i = next(i for i in range(1, len(vals)) if vals[i] != vals[0])
            kind = k.split(":")[-1]
            viols.append(viol("differs-across-hash-seeds:" + kind, "output %s differs between PYTHONHASHSEED=%s and %s" % (k, seeds[0], seeds[i]),
                              [vals[0], vals[i]], "byte-identical") | dict(case=dict(battery_key=k, seeds=[seeds[0], seeds[i]], tier=tier)))
        if seeds[0] == "0" and rev.get(k) != runs[0].get(k):
            viols.append(viol("depends-on-processing-order:" + k.split(":")[-1], "output %s differs when the same inputs are processed in the opposite order in one interpreter (same hash seed)" % k,
                              [runs[0].get(k), rev.get(k)], "identical") | dict(case=dict(battery_key=k, seeds=["0", "0"], tier=tier, order=True), no_confirm=True))
        if seeds[0] == "0" and k in parts and parts[k] != runs[0].get(k):
            viols.append(viol("depends-on-process-history:" + k.split(":")[-1], "output %s differs when the structure is converted after another history of conversions in a fresh interpreter (every %dth structure only; same hash seed)" % (k, NPARTS),
                              [runs[0].get(k), parts[k]], "identical") | dict(case=dict(battery_key=k, seeds=["0", "0"], tier=tier, order=True), no_confirm=True))
        if rep[0].get(k) != rep[1].get(k):
            viols.append(viol("differs-in-process:" + k.split(":")[-1], "output %s differs between two calls in one process" % k, [rep[0].get(k), rep[1].get(k)], "identical")
                         | dict(case=dict(battery_key=k, seeds=["0", "0"], tier=tier), no_confirm=True))
        if rep[0].get(k) != runs[0].get(k) and seeds[0] == "0":
            viols.append(viol("differs-fresh-vs-repeated:" + k.split(":")[-1], "output %s differs between a fresh process and a repeated call" % k, None, None)
                         | dict(case=dict(battery_key=k, seeds=["0", "0"], tier=tier), no_confirm=True))
    exc = sorted(k for k, v in runs[0].items() if v.startswith(("EXC", "EXIT")))
    return dict(evaluations=len(keys) * (len(seeds) + 2), distinct_nontrivial=len(keys), battery_keys=len(keys), seeds=seeds, real_runs=len(seeds) + 3,
                differing_keys=differing, outputs_that_are_exceptions=exc[:40], wall_s=round(time.time() - t0, 1), violations=viols,
                uncovered_set_displays=_ast_pass())


def _replay_battery(case):
    k = case["battery_key"]
    prefix = k.rsplit(":", 1)[0]
    a = _battery(case["seeds"][0], case.get("tier", "quick"), prefix)
    b = _battery(case["seeds"][1], case.get("tier", "quick"), prefix)
    out = []
    if a.get(k) != b.get(k):
        out.append(viol("differs-across-hash-seeds:" + k.split(":")[-1], "output %s differs between PYTHONHASHSEED=%s and %s" % (k, case["seeds"][0], case["seeds"][1]),
                        [a.get(k), b.get(k)], "byte-identical"))
    return dict(nontrivial=True, outcome="battery-replay", violations=out)


def _ast_pass():
    """Lists set displays / comprehensions in the anchored modules that are iterated directly (they bypass the seam)."""
    import ast

    root = os.path.join(SRC or "/repo/src", "rnapolis")
    found = []
    for name in ("common.py", "tertiary.py", "annotator.py", "parser.py", "clashfinder.py"):
        try:
            tree = ast.parse(open(os.path.join(root, name)).read())
        except Exception:  # noqa
            continue
        for node in ast.walk(tree):
            it = None
            if isinstance(node, (ast.For, ast.comprehension)):
                it = node.iter
            elif isinstance(node, ast.Call) and isinstance(node.func, ast.Name) and node.func.id in ("list", "tuple", "sorted", "enumerate") and node.args:
                it = node.args[0]
            if isinstance(it, (ast.Set, ast.SetComp)):
                found.append("%s:%d" % (name, it.lineno))
    return found
