"""C15 - both reader generations and both file formats agree on structure content (form S, differential)."""
import itertools
import math
import os
import warnings

from mc import corpus, enum3d, enumio
from mc.engine import observe, scratch_dir
from mc.props.common2d import viol

ID = "C15"
LEVEL = "exploration"
RULE = (
    "every table within d deviations of a 14-nucleotide duplex (1ehz acceptor stem; deviations: chain ids, negative/gapped numbering, insertion "
    "codes, residues differing only by insertion code, HETATM, modified residue names, removed O3'/P, translated tail, whole structure shifted so that coordinates fill the 8-character PDB fields, O3'-P set to 2.39/2.395/"
    "2.405/2.41 A, reversed atom order, hydrogen names with primes) and every single-conformer corpus structure, each emitted as PDB and mmCIF by an "
    "independent emitter and read four ways (parser.read_3d_structure, parser_v2 + tertiary_v2.Structure; PDB, mmCIF): the four residue maps "
    "(chain, number, icode, name) -> {atom: coordinates} must be equal to the abstract table, is_connected of consecutive residues must agree in all "
    "four and with the reference (O3'-P < 2.4 A, margin 1e-6), connected segments must equal the reference segments, and |chi| must agree between "
    "Residue3D.chi and the v2 torsion table to 1e-9. non-trivial = at least one deviation (generated) / every corpus structure; distinct = distinct table."
)
ASSUMPTIONS = [
    "one model, no alternate locations, no repeated atoms (as the property states)",
    "chi is compared by magnitude only (the sign convention of the second implementation is C18's subject)",
    "structures that PDB cannot represent (multi-character chain ids, blank chain) are read as mmCIF only",
]
_tier = ["quick"]


def worker_init(tier):
    _tier[0] = tier
    warnings.simplefilter("ignore")


def _res_atoms(t, chain, num):
    return [a for a in t if a["chain"] == chain and a["resseq"] == num]


def d_chain(new):
    def f(t):
        for a in t:
            if a["chain"] == "B":
                a["chain"] = new
    f.__name__ = "chainB->%s" % new
    return f


def d_renumber(start):
    def f(t):
        for a in t:
            if a["chain"] == "A":
                a["resseq"] = a["resseq"] - 1 + start
    f.__name__ = "A-from-%d" % start
    return f


def d_gap(t):
    for a in t:
        if a["chain"] == "A" and a["resseq"] >= 4:
            a["resseq"] += 10


def d_icode(t):
    for a in t:
        if a["chain"] == "A" and a["resseq"] in (2, 5):
            a["icode"] = "A"


def d_icode_pair(t):
    for a in t:
        if a["chain"] == "B" and a["resseq"] == 67:
            a["resseq"] = 66
            a["icode"] = "A"


def d_boundary_twin(t):
    """The first residue of the second chain gets the name and number of the last residue of the first chain (consecutive records differing in the chain only)."""
    res = corpus.residues(t)
    chains = []
    for ident, _ in res:
        if ident[1] not in chains:
            chains.append(ident[1])
    if len(chains) < 2:
        return False
    last_a = [ident for ident, _ in res if ident[1] == chains[0]][-1]
    first_b = [(ident, atoms) for ident, atoms in res if ident[1] == chains[1]][0]
    if any(ident[1] == chains[1] and ident[2] == last_a[2] and ident[3] == last_a[3] for ident, _ in res):
        return False
    for a in first_b[1]:
        a["resseq"], a["icode"], a["resname"] = last_a[2], last_a[3], last_a[4]


def d_hetatm_serial(t):
    """Serials start at 9990, so that residue A3, written as HETATM, carries five-digit serials (record name and serial touch in the PDB line)."""
    for a in t:
        a["serial"] += 9989
        if a["chain"] == "A" and a["resseq"] in (3, 6):
            a["record"] = "HETATM"


def d_hetatm(t):
    for a in t:
        if a["chain"] == "A" and a["resseq"] == 3:
            a["record"] = "HETATM"


def d_resname(new, chain="A", num=3):
    def f(t):
        for a in _res_atoms(t, chain, num):
            a["resname"] = new
    f.__name__ = "resname-%s%d=%s" % (chain, num, new)
    return f


def d_remove(name, num):
    def f(t):
        t[:] = [a for a in t if not (a["chain"] == "A" and a["resseq"] == num and a["name"] == name)]
    f.__name__ = "remove-%s-of-A%d" % (name, num)
    return f


def d_translate(t):
    for a in t:
        if a["chain"] == "A" and a["resseq"] >= 5:
            a["z"] = "%.3f" % (float(a["z"]) + 3.0)


def d_op(dist):
    def f(t):
        o3 = [a for a in t if a["chain"] == "A" and a["resseq"] == 3 and a["name"] == "O3'"]
        p = [a for a in t if a["chain"] == "A" and a["resseq"] == 4 and a["name"] == "P"]
        if not o3 or not p:
            return False
        o3, p = o3[0], p[0]
        v = [float(p[k]) - float(o3[k]) for k in "xyz"]
        n = math.sqrt(sum(c * c for c in v))
        # search the 0.001 grid point along the direction whose distance is closest to the wanted one, on the wanted side
        best = None
        for step in range(-30, 31):
            s = dist / n + step * 0.0002
            cand = [round(float(o3[k]) + v[i] * s, 3) for i, k in enumerate("xyz")]
            d = math.sqrt(sum((cand[i] - float(o3[k])) ** 2 for i, k in enumerate("xyz")))
            if (dist < 2.4) == (d < 2.4) and abs(d - 2.4) > 1e-4:
                if best is None or abs(d - dist) < abs(best[0] - dist):
                    best = (d, cand)
        for i, k in enumerate("xyz"):
            p[k] = "%.3f" % best[1][i]
    f.__name__ = "O3'-P=%s" % dist
    return f


def d_shift(dx, dy, dz):
    def f(t):
        for a in t:
            a["x"] = "%.3f" % (float(a["x"]) + dx)
            a["y"] = "%.3f" % (float(a["y"]) + dy)
            a["z"] = "%.3f" % (float(a["z"]) + dz)
    f.__name__ = "shift(%s,%s,%s)" % (dx, dy, dz)
    return f


def d_legacy_names(scope):
    """Atom names of the pre-2008 PDB style (O3* for O3', O1P for OP1, C5M for C7): names are reported as written by every reader and format."""
    def f(t):
        for a in t:
            if scope == "all" or (a["chain"] == "A" and a["resseq"] in (3, 4)):
                nm = a["name"].replace("'", "*")
                nm = {"OP1": "O1P", "OP2": "O2P", "OP3": "O3P", "C7": "C5M"}.get(nm, nm)
                a["name"] = nm
    f.__name__ = "legacy-names-%s" % scope
    return f


def d_split_chain(t):
    """One covalently continuous strand deposited under two chain identifiers: chain A from residue 4 on becomes chain C (the O3'-P link A3-C4 is intact,
    but connectivity and segments are a matter of residues of one chain)."""
    if any(a["chain"] == "C" for a in t):
        return False
    for a in t:
        if a["chain"] == "A" and a["resseq"] >= 4:
            a["chain"] = "C"


def d_sodium(t):
    """A sodium ion: component, atom and element are all spelled NA - a name, not a missing-value marker."""
    last = t[-1]
    t.append(enumio.atom(last["serial"] + 1, "NA", "NA", last["chain"], 301, "%.3f" % (float(last["x"]) + 9.0), "%.3f" % (float(last["y"]) + 9.0), last["z"], element="NA", record="HETATM"))


def d_reverse(t):
    out = []
    for _, atoms in corpus.residues(t):
        out.extend(reversed(atoms))
    t[:] = out
    for k, a in enumerate(t):
        a["serial"] = k + 1


def d_hydrogens(t):
    k = len(t)
    src = [a for a in t if a["chain"] == "A" and a["resseq"] == 2 and a["name"] == "C5'"]
    if not src:
        return False  # an earlier deviation renamed the chain / renumbered the residue: combination not applicable
    src = src[0]
    idx = t.index(src)
    for n, nm in enumerate(("H5'", "H5''", "HO2'")):
        b = dict(src)
        b["name"] = nm
        b["element"] = "H"
        b["x"] = "%.3f" % (float(src["x"]) + 0.7 + 0.7 * n)
        t.insert(idx + 1 + n, b)
    for k, a in enumerate(t):
        a["serial"] = k + 1


def deviations():
    d = [d_chain("b"), d_chain("1"), d_renumber(-3), d_renumber(995), d_gap, d_icode, d_icode_pair, d_hetatm, d_resname("DG"), d_resname("5MC", "A", 2), d_resname("PSU", "A", 6),
         d_remove("O3'", 3), d_remove("P", 4), d_remove("N9", 3), d_translate]
    d += [d_op(x) for x in (2.39, 2.395, 2.405, 2.41)]
    d += [d_reverse, d_hydrogens]
    d += [d_boundary_twin, d_hetatm_serial]
    # coordinates that fill the 8-character PDB fields completely (<= -100.000, >= 1000.000)
    d += [d_shift(-250.0, -250.0, -250.0), d_shift(1500.0, 0.0, -180.0), d_shift(0.0, 2000.0, 0.0)]
    d += [d_legacy_names("all"), d_legacy_names("A3-A4")]
    d += [d_split_chain, d_sodium]
    return d


DEVS = deviations()


def BOUNDS(tier):
    q = tier == "quick"
    return dict(deviation_list=len(DEVS), d=1 if q else 2, corpus_files=len(CORPUS_Q if q else CORPUS_T))


CORPUS_Q = ["1HMH_1_E.cif", "6INQ.cif", "1DFU_1_M-N.cif", "4WTI_1_T-P.cif", "1E7K_1_C.cif", "184D.cif", "1A1T_1_B.cif", "6FC9.cif", "1JJP.cif", "1ATO.pdb", "6RS3.cif"]
CORPUS_T = CORPUS_Q + ["1E7K_1_C_modified.cif", "1ehz-assembly-1.cif", "8btk_B7.cif", "2HY9.cif", "488d.pdb", "q-ugg-5k-salt_400-500ns_frame1065.pdb", "1a9n.cif", "6g90_1.cif", "1gid.cif.gz"]


def families(tier):
    q = tier == "quick"
    dmax = 1 if q else 2
    return [
        ("generated", lambda: (dict(devs=list(c)) for c in enumio.combos(DEVS, dmax)), 1),
        ("generated-pairs-reduced", lambda: (dict(devs=list(c)) for c in itertools.combinations(range(0, len(DEVS), 2), 2)) if q else iter(()), 1),
        ("corpus", lambda: (dict(file=f) for f in (CORPUS_Q if q else CORPUS_T)), 1),
        # text presentations: short lines / no element columns / CRLF / other records (PDB) paired with reversed / quoted / extra / tab-separated columns (mmCIF)
        ("presentations", lambda: (dict(devs=list(c), variant=v) for c in enumio.combos(DEVS, 1) for v in range(4)), 1),
    ]


def build(case):
    if "file" in case:
        t = [dict(a) for a in corpus.table(case["file"])]
        t = [a for a in t if True]
        return t
    t = enum3d.duplex_table()
    for k in case["devs"]:
        if DEVS[k](t) is False:
            return None
    return t


def ident_of(a):
    return (a["chain"], a["resseq"], a["icode"], a["resname"])


def reference(t):
    res = []
    for ident, atoms in corpus.residues(t):
        res.append((ident[1:], {a["name"]: (enumio.dec(a["x"], 3), enumio.dec(a["y"], 3), enumio.dec(a["z"], 3)) for a in atoms}))
    return res


def ref_connected(r1, r2):
    """(value, decided)"""
    a, b = r1[1].get("O3'"), r2[1].get("P")
    if a is None or b is None:
        return False, True
    d = math.sqrt(sum((float(a[k]) - float(b[k])) ** 2 for k in range(3)))
    return d < 2.4, abs(d - 2.4) > 1e-6


def read_v1(path):
    from rnapolis.parser import read_3d_structure

    with open(path) as f:
        s = read_3d_structure(f, None)
    res = []
    for r in s.residues:
        res.append(((r.chain, r.number, r.icode, r.name), {a.name: ("%.3f" % a.x, "%.3f" % a.y, "%.3f" % a.z) for a in r.atoms}, r))
    return res


def read_v2(path, fmt):
    from rnapolis import parser_v2, tertiary_v2

    from rnapolis.parser import is_cif

    with open(path) as f:
        # as the command-line tools do: the open handle is first asked what format it holds, then handed to the reader
        sniffed = is_cif(f)
        df = parser_v2.parse_cif_atoms(f) if sniffed else parser_v2.parse_pdb_atoms(f)
    if sniffed != (fmt != "PDB"):
        raise RuntimeError("is_cif() takes the %s text for %s" % (fmt, "mmCIF" if sniffed else "PDB"))
    st = tertiary_v2.Structure(df)
    res = []
    for r in st.residues:
        if len(r.atoms) == 0:
            continue
        atoms = {}
        for a in r.atoms_list:
            c = a.coordinates
            atoms[a.name] = ("%.3f" % c[0], "%.3f" % c[1], "%.3f" % c[2])
        res.append(((r.chain_id, r.residue_number, r.insertion_code, r.residue_name), atoms, r))
    return res, st


def run_case(case):
    t = build(case)
    if t is None:
        return dict(nontrivial=False, outcome="inapplicable", violations=[])
    if corpus.has_altlocs(t):
        return dict(nontrivial=False, outcome="altlocs-skipped", violations=[])
    if "file" in case and not corpus.single_conformer(t):
        # the property is about single-conformer structures; copies of a residue closer than 0.5 A are reduced to one by the first reader (C08)
        return dict(nontrivial=False, outcome="overlapping-conformers-skipped", violations=[])
    keys = [(ident_of(a), a["name"]) for a in t]
    if len(set(keys)) != len(keys):
        return dict(nontrivial=False, outcome="repeated-atoms-skipped", violations=[])
    for a in t:
        a["model"] = 1
    ref = reference(t)
    refmap = {i: atoms for i, atoms in ref}
    if len(refmap) != len(ref):
        return dict(nontrivial=False, outcome="residue-identity-repeats-skipped", violations=[])
    out = []
    sd = scratch_dir()
    readings = {}
    fmts = ["mmCIF"] + (["PDB"] if corpus.pdb_expressible(t) and all(a["chain"].strip() for a in t) else [])
    for fmt in fmts:
        path = os.path.join(sd, "c15." + ("pdb" if fmt == "PDB" else "cif"))
        text = enumio.emit_pdb(t) if fmt == "PDB" else enumio.emit_cif(t)
        if "variant" in case:
            # another legal presentation of the same text (one variant per format, paired by position in the two lists)
            vi = case["variant"]
            text = enumio.pdb_variant(text, enumio.PDB_VARIANTS[vi]) if fmt == "PDB" else enumio.cif_variant(text, enumio.CIF_VARIANTS[vi])
        with open(path, "w", newline="") as f:
            f.write(text)
        r1 = observe(read_v1, path)
        if r1[0] == "exc":
            out.append(viol("v1-%s-raises:%s" % (fmt, r1[1]), "read_3d_structure raised %s" % r1[2]))
        else:
            readings["v1/" + fmt] = (r1[1], None)
        r2 = observe(read_v2, path, fmt)
        if r2[0] == "exc":
            out.append(viol("v2-%s-raises:%s" % (fmt, r2[1]), "parser_v2/tertiary_v2 raised %s" % r2[2]))
        else:
            readings["v2/" + fmt] = r2[1]
    # 1. residue maps
    for name, (res, st) in readings.items():
        m = {}
        for i, atoms, _ in res:
            if i in m:
                out.append(viol("residue-twice:" + name, "%s reports residue %s twice" % (name, i)))
            m[i] = atoms
        if m != refmap:
            missing = [i for i in refmap if i not in m]
            extra = [i for i in m if i not in refmap]
            if missing or extra:
                out.append(viol("residues-differ:" + name, "%s: residues missing %s, unexpected %s" % (name, missing[:3], extra[:3])))
            else:
                bad = next(i for i in refmap if m[i] != refmap[i])
                an = [k for k in set(refmap[bad]) | set(m[bad]) if refmap[bad].get(k) != m[bad].get(k)]
                out.append(viol("atoms-differ:" + name, "%s: residue %s atoms differ at %s" % (name, bad, an[:4]), {k: m[bad].get(k) for k in an[:4]}, {k: refmap[bad].get(k) for k in an[:4]}))
    # 2. connectivity of consecutive residues
    nconn = 0
    for k in range(len(ref) - 1):
        a, b = ref[k], ref[k + 1]
        if a[0][0] != b[0][0]:
            continue
        want, decided = ref_connected(a, b)
        if not decided:
            continue
        nconn += want
        for name, (res, st) in readings.items():
            objs = {i: o for i, _, o in res}
            if a[0] in objs and b[0] in objs:
                g = observe(objs[a[0]].is_connected, objs[b[0]])
                if g[0] == "exc":
                    out.append(viol("is_connected-raises:%s:%s" % (name, g[1]), "%s is_connected raised %s" % (name, g[2])))
                elif bool(g[1]) != want:
                    out.append(viol("connectivity:" + name.split("/")[0], "%s: is_connected(%s, %s) = %s, O3'-P reference says %s" % (name, a[0], b[0], g[1], want), g[1], want))
    # 3. connected segments of v2
    bychain = {}
    for i, atoms in ref:
        bychain.setdefault(i[0], []).append((i, atoms))
    want_segments = []
    segments_decided = True
    for ch, rs in bychain.items():
        rs = sorted(rs, key=lambda r: (r[0][1], r[0][2] or ""))
        cur = []
        for r in rs:
            if cur:
                w, dec = ref_connected(cur[-1], r)
                segments_decided &= dec
                if w:
                    cur.append(r)
                    continue
                if len(cur) > 1:
                    want_segments.append([x[0] for x in cur])
                cur = [r]
            else:
                cur = [r]
        if len(cur) > 1:
            want_segments.append([x[0] for x in cur])
    v1chi = {}
    for name, (res, st) in readings.items():
        if name.startswith("v1"):
            for i, _, o in res:
                c = observe(lambda: o.chi)
                if c[0] == "ok" and not math.isnan(c[1]):
                    v1chi.setdefault(i, {})[name] = c[1]
            continue
        seg = observe(lambda: st.connected_residues)
        if seg[0] == "exc":
            out.append(viol("segments-raise:%s:%s" % (name, seg[1]), "%s connected_residues raised %s" % (name, seg[2])))
            continue
        got = [[(r.chain_id, r.residue_number, r.insertion_code, r.residue_name) for r in s] for s in seg[1]]
        if segments_decided and sorted(got) != sorted(want_segments):
            out.append(viol("segments-differ:" + name.split("/")[0], "%s: connected segments differ from the reference" % name, [s[:3] for s in got[:3]], [s[:3] for s in want_segments[:3]]))
        ta = observe(lambda: st.torsion_angles)
        if ta[0] == "exc":
            out.append(viol("torsion-table-raises:%s:%s" % (name, ta[1]), "%s torsion_angles raised %s" % (name, ta[2])))
            continue
        for _, row in ta[1].iterrows():
            chi = row["chi"]
            if chi is None or (isinstance(chi, float) and math.isnan(chi)):
                continue
            ic = row["insertion_code"]
            ic = None if ic is None or (isinstance(ic, float) and math.isnan(ic)) else ic
            i = (row["chain_id"], int(row["residue_number"]), ic, row["residue_name"])
            for n1, c1 in v1chi.get(i, {}).items() if False else []:
                pass
            v1chi.setdefault(i, {})[name] = float(chi)
    nchi = 0
    for i, d in v1chi.items():
        vals = list(d.items())
        if len(vals) > 1 and any(k.startswith("v1") for k in d) and any(k.startswith("v2") for k in d):
            nchi += 1
        for (n1, c1), (n2, c2) in itertools.combinations(vals, 2):
            if abs(abs(c1) - abs(c2)) > 1e-9:
                out.append(viol("chi-magnitude-differs", "residue %s: |chi| %s=%.9f vs %s=%.9f" % (i, n1, abs(c1), n2, abs(c2)), None, None))
                break
    u = {}
    for v in out:
        u.setdefault(v["signature"], v)
    return dict(nontrivial=("file" in case) or bool(case.get("devs")), outcome="readings=%d connected=%s chi=%s" % (len(readings), "yes" if nconn else "no", "yes" if nchi else "no"),
                violations=list(u.values()), extra=dict(connectivity_pairs=nconn, chi_compared=nchi))
