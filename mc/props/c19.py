"""C19 - external-tool output is imported totally and faithfully (form S)."""
import itertools
import json
import os

from mc.engine import observe, scratch_dir
from mc.props.common2d import viol
from mc.ref import refadapter as ra

ID = "C19"
LEVEL = "exploration"
RULE = (
    "(a) unify_classification on EVERY string up to length L over the 19-symbol FR3D alphabet {n,a,s,c,t,C,T,W,H,S,w,h,B,R,P,0,3,5,9} (plus all "
    "strings up to length 4 over that alphabet extended by the remaining digits and a foreign letter), judged by a regular-expression grammar: "
    "labels of the certain language get exactly their category and class, labels underivable under any reading get 'other', the ambiguous rest "
    "must give exactly one interaction; (b) every sequence of up to K lines from a 26-line alphabet (valid unit-id pairs incl. negative numbers, "
    "insertion codes, symmetry suffix, every label category, near-misses) through parse_fr3d_output; (c) every DSSR document with <=2 pairs and "
    "<=1 stack of <=4 members over resolvable/prefixed/unresolvable/null names x 18 valid + 7 invalid LW values x plain/models wrappers; (d) adapter.main in-process on a 14-nucleotide duplex for every sequence of up to 2/3 lines of a 12-line alphabet and 6 DSSR documents: never raises, CSV lists exactly the denoted interactions. "
    "non-trivial = label in the certain language / listing with at least one importable line / document with at least one resolvable pair or "
    "stack; distinct = distinct input."
)
ASSUMPTIONS = [
    "numbers that Python's int() accepts but that are not plain decimal integers (e.g. '+5', '1_0') are outside the alphabet",
    "for DSSR, LW values that differ from the 18 class names only by letter case are not judged",
]
ALPHA = "nasctCTWHSwhBRP0359"
ALPHA_EXT = ALPHA + "1246789" + "x" + "-" + "bpr"  # lower-case b, p, r: mis-cased backbone labels such as 0br, 3bph
_tier = ["quick"]


def worker_init(tier):
    _tier[0] = tier


def BOUNDS(tier):
    q = tier == "quick"
    return dict(label_length=5 if q else 6, extended_alphabet_length=3 if q else 4, listing_lines=3 if q else 4, line_alphabet=len(LINES),
                dssr="<=2 pairs x <=1 stack of <=%d members" % (3 if q else 4))


U1 = "1XYZ|1|A|G|10"
U2 = "1XYZ|1|B|C|-5"
U3 = "1XYZ|1|A|U|11|||A"
U4 = "1XYZ|1|A|5MC|12||||6_555"
U5 = "1XYZ|1|A|U|11"  # same chain, name and number as U3, no insertion code
U6 = "1XYZ|1|A|U|11|||A|6_555"  # insertion code AND symmetry operator (nine fields)
LINES = [
    U1 + "\tcWW\t" + U2,
    U2 + "\ttHS\t" + U3,
    U3 + "\tncSH\t" + U4,
    U1 + "\tcwwa\t" + U4,
    U1 + "\ts35\t" + U2,
    U2 + "\tns55\t" + U1,
    U1 + "\t4BPh\t" + U3,
    U4 + "\tn0BR\t" + U1,
    U1 + "\tperp\t" + U2,
    U1 + "\t\t" + U2,
    U1 + "\tcWW\t" + U2 + "\textra\tcolumns",
    "  " + U1 + "\ttWW\t" + U3 + "  ",
    U1 + "\tcWW",
    U1 + " cWW " + U2,
    "1XYZ|1|A|G|ten\tcWW\t" + U2,
    U1 + "\tcWW\t1XYZ|1|B|C|",
    "1XYZ|1|A|G\tcWW\t" + U2,
    "# comment\tcWW\t" + U2,
    "",
    "   ",
    "garbage",
    "\t\t",
    U1 + "\tcWW\t" + U1,
    U2 + "\tcWW\t" + U1,
    U1 + "\tcWW\t" + U2,  # exact duplicate of line 0
    U1 + "\t9BPh\t" + U2,
    # residues told apart by the insertion code only, in both orders of appearance (appended: earlier indices stay valid)
    U5 + "\tcWW\t" + U3,
    U3 + "\ts53\t" + U5,
    U6 + "\tcWH\t" + U2,
]


def label_prefixes(tier):
    q = tier == "quick"
    L = 5 if q else 6
    for a in ALPHA:
        for b in ALPHA:
            yield dict(labels=a + b, alphabet="base", maxlen=L)
    yield dict(labels="", alphabet="base", maxlen=1)
    Lx = 3 if q else 4
    for a in ALPHA_EXT:
        yield dict(labels=a, alphabet="ext", maxlen=Lx)


def listings(tier):
    K = 3 if tier == "quick" else 4
    # one long listing (6 000 / 40 000 lines, several hundred kilobytes): every line counts, however far down the file it stands
    yield dict(listing=[k % len(LINES) for k in range(6000 if tier == "quick" else 40000)])
    for k in range(1, K + 1):
        for combo in itertools.product(range(len(LINES)), repeat=k):
            yield dict(listing=list(combo))


NAMES = ["A.G1", "1:A.C2", "A.U3^A", "B.5MC4", "A.G99", None, "", "G1"]
LWS_BAD = ["cW.", "--", "", None, "cww", "__doc__", "reverse"]


def dssr_docs(tier):
    q = tier == "quick"
    lws = ra.LW18 + LWS_BAD
    # one pair: all names x names x lws
    for n1 in NAMES:
        for n2 in NAMES:
            for lw in lws:
                yield dict(dssr=dict(pairs=[[n1, n2, lw]], stacks=[]), wrap="plain")
    # two pairs: reduced names, reduced lws
    rn = ["A.G1", "1:A.C2", "A.G99", None]
    rl = ["cWW", "tHS", "cww", "__doc__", None]
    for p1 in itertools.product(rn, rn, rl):
        for p2 in itertools.product(rn[:3], rn[:2], rl[:4]):
            yield dict(dssr=dict(pairs=[list(p1), list(p2)], stacks=[]), wrap="plain")
    # stacks
    sn = ["A.G1", "1:A.C2", "A.U3^A", "A.G99", ""]
    for k in range(0, (3 if q else 4) + 1):
        for members in itertools.product(sn, repeat=k):
            for wrap in ("plain", "models-first", "models-match", "models-nomatch"):
                yield dict(dssr=dict(pairs=[["A.G1", "1:A.C2", "cWW"]], stacks=[list(members)]), wrap=wrap)
    yield dict(dssr=dict(pairs=[], stacks=[None]), wrap="plain")


CU1, CU2, CU3, CU4 = "1EHZ|1|A|G|1", "1EHZ|1|B|C|72", "1EHZ|1|A|C|2", "1EHZ|1|B|G|71"
CLI_LINES = [
    CU1 + "\tcWW\t" + CU2,
    CU3 + "\tcWW\t" + CU4,
    CU4 + "\tncWW\t" + CU3,
    CU1 + "\ttHS\t" + CU4,
    CU1 + "\ts35\t" + CU3,
    CU2 + "\t4BPh\t" + CU1,
    CU3 + "\t1BR\t" + CU2,
    CU1 + "\tperp\t" + CU4,
    CU1 + "\tcWW\t1EHZ|1|B|C|999",
    CU1 + "\tcWW",
    "# comment",
    "1EHZ|1|A|G|x\tcWW\t" + CU2,
]


def cli_cases(tier):
    K = 2 if tier == "quick" else 3
    for k in range(0, K + 1):
        for combo in itertools.product(range(len(CLI_LINES)), repeat=k):
            for tool in ("fr3d",):
                yield dict(cli=list(combo), tool=tool)
    for wrap in ("plain", "models-first"):
        for lw in ("cWW", "__doc__", None):
            yield dict(cli_dssr=dict(pairs=[["A.G1", "B.C72", lw], ["1:A.C2", "B.G71", "cWW"]], stacks=[["A.G1", "A.C2", "A.G99"]]), wrap=wrap)


def families(tier):
    return [("labels", lambda: label_prefixes(tier), 1), ("listings", lambda: listings(tier), 1), ("dssr", lambda: dssr_docs(tier), 1), ("adapter-cli", lambda: cli_cases(tier), 1)]


def classify_result(res):
    cat, cls = res
    name = None
    if cls is not None:
        name = getattr(cls, "value", None) if cat in ("base-pair", "base-ribose", "base-phosphate") else getattr(cls, "name", None)
    return cat, name


def check_label(label, out, unify):
    r = observe(unify, label)
    exp = ra.expected(label)
    if r[0] == "exc":
        out.append(viol("label-raises:" + r[1], "unify_classification(%r) raised %s" % (label, r[2]), r[2], "a (category, class) tuple"))
        return exp[0]
    res = r[1]
    if not (isinstance(res, tuple) and len(res) == 2 and res[0] in ("base-pair", "stacking", "base-ribose", "base-phosphate", "other")):
        out.append(viol("label-result-shape", "unify_classification(%r) returned %r" % (label, res), repr(res), None))
        return exp[0]
    cat, name = classify_result(res)
    if exp[0] == "exact":
        if (cat, name) != (exp[1], exp[2]):
            out.append(viol("label-misfiled:%s" % exp[1], "label %r filed as %s/%s, denotes %s/%s" % (label, cat, name, exp[1], exp[2]), [cat, name], list(exp[1:])))
    elif exp[0] == "other":
        if cat != "other":
            out.append(viol("label-invented:%s" % cat, "label %r denotes nothing under any reading but was filed as %s/%s" % (label, cat, name), [cat, name], "other"))
    return exp[0]


def run_labels(case):
    from rnapolis.adapter import unify_classification

    out = []
    alpha = ALPHA if case["alphabet"] == "base" else ALPHA_EXT
    pre = case["labels"]
    n = 0
    nt = 0
    kinds = set()
    todo = [pre] if pre or case["maxlen"] == 1 else []
    if pre == "":
        todo = [""] + list(alpha)  # empty label and all single characters
        for lab in todo:
            k = check_label(lab, out, unify_classification)
            n += 1
            nt += k == "exact"
        return dict(nontrivial=True, outcome="labels", violations=_dedupe(out), evaluations=n, bulk_nontrivial=nt)
    for extra in range(0, case["maxlen"] - len(pre) + 1):
        for tail in itertools.product(alpha, repeat=extra):
            lab = pre + "".join(tail)
            k = check_label(lab, out, unify_classification)
            n += 1
            nt += k == "exact"
            if len(out) > 50:
                break
    return dict(nontrivial=nt > 0, outcome="labels", violations=_dedupe(out), evaluations=n, bulk_nontrivial=max(nt - 1, 0))


def _dedupe(out):
    u = {}
    for v in out:
        u.setdefault(v["signature"], v)
    return list(u.values())


def res_tuple(r):
    a = getattr(r, "auth", None)
    return (a.chain, a.number, a.icode, a.name) if a is not None else None


def run_listing(case):
    from rnapolis.adapter import parse_fr3d_output

    out = []
    lines = [LINES[k] for k in case["listing"]]
    path = os.path.join(scratch_dir(), "listing.txt")
    with open(path, "w") as f:
        f.write("\n".join(lines) + "\n")
    r = observe(parse_fr3d_output, path)
    if r[0] == "exc":
        return dict(nontrivial=True, outcome="exc", violations=[viol("listing-raises:" + r[1], "parse_fr3d_output raised %s on %r" % (r[2], lines), r[2], "never raises")])
    bi = r[1]
    got = {
        "base-pair": [(res_tuple(x.nt1), res_tuple(x.nt2), x.lw.value) for x in bi.basePairs],
        "stacking": [(res_tuple(x.nt1), res_tuple(x.nt2), x.topology.name if x.topology else None) for x in bi.stackings],
        "base-ribose": [(res_tuple(x.nt1), res_tuple(x.nt2), x.br.value if x.br else None) for x in bi.baseRiboseInteractions],
        "base-phosphate": [(res_tuple(x.nt1), res_tuple(x.nt2), x.bph.value if x.bph else None) for x in bi.basePhosphateInteractions],
        "other": [(res_tuple(x.nt1), res_tuple(x.nt2), None) for x in bi.otherInteractions],
    }
    want = {k: [] for k in got}
    anyk = []
    unclear = False
    for line in lines:
        s = line.strip()
        if not s or s.startswith("#"):
            continue
        parts = s.split("\t")
        if len(parts) < 3:
            continue
        u1, u2 = ra.parse_unit(parts[0]), ra.parse_unit(parts[2])
        if u1 == "unclear" or u2 == "unclear":
            unclear = True
            continue
        if u1 is None or u2 is None:
            continue
        exp = ra.expected(parts[1])
        if exp[0] == "exact":
            want[exp[1]].append((u1, u2, exp[2]))
        elif exp[0] == "other":
            want["other"].append((u1, u2, None))
        else:
            anyk.append((u1, u2))
    if not unclear:
        total_got = sum(len(v) for v in got.values())
        total_want = sum(len(v) for v in want.values()) + len(anyk)
        if total_got != total_want:
            out.append(viol("listing-count:%s" % ("lost" if total_got < total_want else "invented"), "%d interactions imported, %d importable lines in %r" % (total_got, total_want, lines), got, want))
        elif not anyk and got != want:
            kind = next(k for k in got if got[k] != want[k])
            out.append(viol("listing-differs:" + kind, "imported interactions differ from the listing %r" % lines, got, want))
    nt = sum(len(v) for v in want.values()) > 0
    return dict(nontrivial=nt, outcome="listing imported=%d" % min(sum(len(v) for v in got.values()), 3), violations=out)


_host = {}


TWIN = {"A.G1": "A.C1", "A.C2": "A.G2", "A.U3^A": "A.A3^A", "B.5MC4": "B.PSU4"}


def host_labels():
    """The host structure as an mmCIF file whose label numbering is shifted against the author numbering while the chain identifiers coincide, plus a fifth
    residue A.G7 whose LABEL identity (chain A, number 1, G) equals the AUTHOR identity of A.G1: DSSR names are author names."""
    if "l" not in _host:
        from rnapolis.parser import read_3d_structure

        items = ["group_PDB", "id", "type_symbol", "label_atom_id", "label_alt_id", "label_comp_id", "label_asym_id", "label_entity_id", "label_seq_id", "pdbx_PDB_ins_code",
                 "Cartn_x", "Cartn_y", "Cartn_z", "occupancy", "B_iso_or_equiv", "auth_seq_id", "auth_comp_id", "auth_asym_id", "auth_atom_id", "pdbx_PDB_model_num"]
        rows = []
        k = 1
        # (name, chain, author number, insertion code, label number)
        for resn, chain, num, icode, lnum in (("G", "A", 1, "?", 5), ("C", "A", 2, "?", 7), ("U", "A", 3, "A", 2), ("5MC", "B", 4, "?", 1), ("G", "A", 7, "?", 1)):
            for an in ("P", "C1'", "N1"):
                q = '"%s"' % an if "'" in an else an
                rows.append(["ATOM", str(k), an[0], q, ".", resn, chain, "1", str(lnum), icode, "%.3f" % float(k), "0.000", "0.000", "1.00", "0.00", str(num), resn, chain, q, "1"])
                k += 1
        text = "data_host\n#\nloop_\n" + "".join("_atom_site.%s\n" % i for i in items) + "".join(" ".join(r) + "\n" for r in rows) + "#\n"
        path = os.path.join(scratch_dir(), "host-labels.cif")
        with open(path, "w") as f:
            f.write(text)
        with open(path) as f:
            _host["l"] = read_3d_structure(f, None)
    return _host["l"]


def host(twin=False):
    """The host structure; its twin has the same chains, numbers and insertion codes but other residue names (what a second input file looks like
    to anything that remembers residues by position)."""
    if twin:
        if "t" not in _host:
            from rnapolis.parser import read_3d_structure

            def atom(serial, name, resn, chain, num, icode, x):
                return "ATOM  %5d %-4s %3s %1s%4d%1s   %8.3f%8.3f%8.3f  1.00  0.00           %s" % (serial, name if len(name) == 4 else " " + name, resn, chain, num, icode, x, 0.0, 0.0, name[0])

            lines = []
            k = 1
            for resn, chain, num, icode in (("C", "A", 1, " "), ("G", "A", 2, " "), ("A", "A", 3, "A"), ("PSU", "B", 4, " ")):
                for an in ("P", "C1'", "N1"):
                    lines.append(atom(k, an, resn, chain, num, icode, float(k)))
                    k += 1
            path = os.path.join(scratch_dir(), "host-twin.pdb")
            with open(path, "w") as f:
                f.write("\n".join(lines) + "\nEND\n")
            with open(path) as f:
                _host["t"] = read_3d_structure(f, None)
        return _host["t"]
    if "s" not in _host:
        from rnapolis.parser import read_3d_structure

        def atom(serial, name, resn, chain, num, icode, x):
            return "ATOM  %5d %-4s %3s %1s%4d%1s   %8.3f%8.3f%8.3f  1.00  0.00           %s" % (serial, name if len(name) == 4 else " " + name, resn, chain, num, icode, x, 0.0, 0.0, name[0])

        lines = []
        k = 1
        for resn, chain, num, icode in (("G", "A", 1, " "), ("C", "A", 2, " "), ("U", "A", 3, "A"), ("5MC", "B", 4, " ")):
            for an in ("P", "C1'", "N1"):
                lines.append(atom(k, an, resn, chain, num, icode, float(k)))
                k += 1
        path = os.path.join(scratch_dir(), "host.pdb")
        with open(path, "w") as f:
            f.write("\n".join(lines) + "\nEND\n")
        with open(path) as f:
            _host["s"] = read_3d_structure(f, None)
        _host["names"] = [r.full_name for r in _host["s"].residues]
    return _host["s"]


def run_dssr(case, twin=False, labels=False):
    from rnapolis.adapter import parse_dssr_output

    out = []
    s = host_labels() if labels else host(twin)
    if twin:
        known = set(TWIN.values())
        tr = lambda n: n if n is None else ":".join(n.split(":")[:-1] + [TWIN.get(n.split(":")[-1], n.split(":")[-1])])
        d = dict(pairs=[[tr(p[0]), tr(p[1]), p[2]] for p in case["dssr"]["pairs"]], stacks=[None if m is None else [tr(x) for x in m] for m in case["dssr"]["stacks"]])
    else:
        host()
        known = {"A.G1", "A.C2", "A.U3^A", "B.5MC4"}
        if not known <= set(_host["names"]):
            out.append(viol("host-names", "full names of the host residues are not the expected ones", sorted(_host["names"]), sorted(known)))
        d = case["dssr"]
    params = dict(pairs=[dict((k, v) for k, v in (("nt1", p[0]), ("nt2", p[1]), ("LW", p[2])) if v is not None or k == "LW") for p in d["pairs"]],
                  stacks=[({"nts_long": ",".join(m)} if m is not None else {}) for m in d["stacks"]])
    wrap = case["wrap"]
    model = None
    if wrap == "plain":
        doc = params
    elif wrap == "models-first":
        doc = {"models": [{"model": 1, "parameters": params}, {"model": 2, "parameters": {"pairs": [], "stacks": []}}]}
    elif wrap == "models-match":
        doc = {"models": [{"model": 1, "parameters": {"pairs": [], "stacks": []}}, {"model": 2, "parameters": params}]}
        model = 2
    else:
        doc = {"models": [{"model": 1, "parameters": params}]}
        model = 7
    path = os.path.join(scratch_dir(), "dssr.json")
    with open(path, "w") as f:
        json.dump(doc, f)
    r = observe(parse_dssr_output, path, s, model)
    if r[0] == "exc":
        lw = [p[2] for p in d["pairs"]]
        return dict(nontrivial=True, outcome="exc", violations=[viol("dssr-raises:" + r[1], "parse_dssr_output raised %s (LW values %r)" % (r[2], lw), r[2], "never raises")])
    bi = r[1]

    def resolve(n):
        if n is None:
            return None
        n = n.split(":")[-1]
        return n if n in known else None

    got_pairs = [(x.nt1.full_name, x.nt2.full_name, x.lw.value) for x in bi.basePairs]
    got_stacks = [(x.nt1.full_name, x.nt2.full_name) for x in bi.stackings]
    want_pairs = []
    fuzzy = False
    for n1, n2, lw in d["pairs"]:
        if resolve(n1) and resolve(n2):
            if lw in ra.LW18:
                want_pairs.append((resolve(n1), resolve(n2), lw))
            elif isinstance(lw, str) and lw.lower() in [x.lower() for x in ra.LW18]:
                fuzzy = True
    want_stacks = []
    for m in d["stacks"]:
        m = m or []
        for a, b in zip(m, m[1:]):
            if resolve(a) and resolve(b):
                want_stacks.append((resolve(a), resolve(b)))
    if wrap == "models-nomatch":
        if not (set(got_pairs) <= set(want_pairs) and set(got_stacks) <= set(want_stacks)):
            out.append(viol("dssr-nomatch-invented", "requested model absent but interactions were imported that no model lists", [got_pairs, got_stacks], None))
    else:
        if not fuzzy and got_pairs != want_pairs:
            out.append(viol("dssr-pairs-differ", "imported DSSR pairs differ", got_pairs, want_pairs))
        if got_stacks != want_stacks:
            out.append(viol("dssr-stacks-differ", "imported DSSR stackings differ", got_stacks, want_stacks))
    if bi.baseRiboseInteractions or bi.basePhosphateInteractions or bi.otherInteractions:
        out.append(viol("dssr-invented-kinds", "DSSR import produced other interaction kinds", None, None))
    if not twin and not labels and wrap == "plain" and len(d["pairs"]) <= 1:
        # the same document against the same residues read from an mmCIF file whose label numbering is shifted against the author numbering
        r3 = run_dssr(case, labels=True)
        for v in r3["violations"]:
            out.append(dict(v, signature=v["signature"] + ":label-shifted-structure", message="(mmCIF host, label numbers shifted against author numbers) " + v["message"]))
    if not twin and not labels and wrap == "plain" and len(d["pairs"]) == 1:
        # the same document, names translated, against the twin structure - in the same process, alternating with the host
        r2 = run_dssr(case, twin=True)
        for v in r2["violations"]:
            out.append(dict(v, signature=v["signature"] + ":twin-structure", message="(twin structure: same positions, other residue names) " + v["message"]))
    return dict(nontrivial=bool(want_pairs or want_stacks), outcome="dssr pairs=%d stacks=%d" % (len(got_pairs), min(len(got_stacks), 3)), violations=out)


_cli = {}


def run_cli_case(case):
    """adapter.main in-process on a 14-nucleotide duplex: never raises; CSV lists exactly the imported interactions."""
    import contextlib
    import csv
    import io
    import sys

    from rnapolis import adapter

    from mc import enum3d, enumio

    sd = scratch_dir()
    if "pdb" not in _cli:
        _cli["pdb"] = os.path.join(sd, "duplex.pdb")
        with open(_cli["pdb"], "w") as f:
            f.write(enumio.emit_pdb(enum3d.duplex_table()))
    ext = os.path.join(sd, "external.txt")
    want = {"base pair": 0, "stacking": 0, "base-phosphate interaction": 0, "base-ribose interaction": 0, "other interaction": 0}
    fuzzy = False
    if "cli" in case:
        lines = [CLI_LINES[k] for k in case["cli"]]
        with open(ext, "w") as f:
            f.write("\n".join(lines) + "\n")
        for line in lines:
            sline = line.strip()
            if not sline or sline.startswith("#"):
                continue
            parts = sline.split("\t")
            if len(parts) < 3 or ra.parse_unit(parts[0]) in (None, "unclear") or ra.parse_unit(parts[2]) in (None, "unclear"):
                continue
            e = ra.expected(parts[1])
            cat = {"base-pair": "base pair", "stacking": "stacking", "base-phosphate": "base-phosphate interaction", "base-ribose": "base-ribose interaction"}.get(e[1] if e[0] == "exact" else None, "other interaction")
            want[cat] += 1
        tool = "fr3d"
    else:
        d = case["cli_dssr"]
        params = dict(pairs=[dict((k, v) for k, v in (("nt1", p[0]), ("nt2", p[1]), ("LW", p[2]))) for p in d["pairs"]], stacks=[{"nts_long": ",".join(m)} for m in d["stacks"]])
        doc = params if case["wrap"] == "plain" else {"models": [{"model": 1, "parameters": params}]}
        with open(ext, "w") as f:
            json.dump(doc, f)
        want["base pair"] = sum(1 for p in d["pairs"] if p[2] in ra.LW18)
        want["stacking"] = 1
        tool = "dssr"
    pcsv, pjson = os.path.join(sd, "a.csv"), os.path.join(sd, "a.json")
    for pth in (pcsv, pjson):
        if os.path.exists(pth):
            os.remove(pth)
    old = sys.argv
    sys.argv = ["adapter", _cli["pdb"], "--external", ext, "--tool", tool, "-c", pcsv, "-j", pjson, "-a"]
    buf = io.StringIO()
    try:
        with contextlib.redirect_stdout(buf), contextlib.redirect_stderr(io.StringIO()):
            r = observe(adapter.main)
    finally:
        sys.argv = old
    out = []
    if r[0] == "exc":
        out.append(viol("adapter-cli:" + r[1], "adapter.main raised %s (external file: %r)" % (r[2], open(ext).read()[:300])))
    else:
        rows = list(csv.reader(open(pcsv)))[1:] if os.path.exists(pcsv) else None
        if rows is None:
            out.append(viol("adapter-cli:no-csv", "adapter.main wrote no CSV"))
        else:
            got = {k: 0 for k in want}
            for row in rows:
                got[row[2]] = got.get(row[2], 0) + 1
            if got != want:
                out.append(viol("adapter-cli:csv-differs", "CSV of adapter.main lists %s, the external file denotes %s" % (got, want), got, want))
        if not os.path.exists(pjson):
            out.append(viol("adapter-cli:no-json", "adapter.main wrote no JSON"))
        else:
            json.load(open(pjson))
        if ">strand_A" not in buf.getvalue():
            out.append(viol("adapter-cli:no-dot-bracket", "adapter.main printed no dot-bracket", buf.getvalue()[:200], None))
    return dict(nontrivial=sum(want.values()) > 0, outcome="cli imported=%d" % min(sum(want.values()), 3), violations=out)


def run_case(case):
    if "cli" in case or "cli_dssr" in case:
        return run_cli_case(case)
    if "labels" in case:
        return run_labels(case)
    if "listing" in case:
        return run_listing(case)
    return run_dssr(case)
