"""C11 - interaction lists are well-formed and self-consistent (forms S + E)."""
import csv
import itertools
import json
import os

from mc import seams
from mc.engine import observe, scratch_dir
from mc.props import ann_common as ac
from mc.props import ann_families as fam
from mc.props.common2d import viol
from mc.ref import refann

ID = "C11"
LEVEL = "exploration"
RULE = (
    "invariant evaluated on every annotation produced by: the two-nucleotide base-pair lattice, the stacking lattice (every 4th point), the "
    "three-nucleotide family, every corpus structure x {identity, nucleotide removed, atom name removed, jitter, cube rotations}, every model of the "
    "multi-model corpus files, and every explorer-chosen KD-tree pair order (as in C03) on structures with a reported interaction: no repeated "
    "interaction, nt1 != nt2, participants are residues of the analysed model, base pairs/stackings list the lower residue first and are sorted, "
    "Saenger present iff the harness's copy of the 28-class table defines (letters, LW), BPh/BR: donor residue != acceptor residue, a base donor atom "
    "within 4.0 A of a phosphate/ribose oxygen, class in the set implied by the contacts present (3&5->4, 7&9->8), at most one entry per ordered "
    "residue pair and kind; write_csv/write_json list the same interactions. non-trivial = at least one interaction; distinct = distinct structure/schedule."
)
ASSUMPTIONS = [
    "Saenger is asserted only when both one-letter names are upper-case A/C/G/U/T",
    "the class check is liberal: any class produced by some donor-oxygen contact within 4.0 A (+1e-6), or a merge of two of them, is accepted",
]
_tier = ["quick"]
_seam = [False]
G3_Q = ["1HMH_1_E.cif", "6INQ.cif", "1DFU_1_M-N.cif", "4WTI_1_T-P.cif", "1E7K_1_C.cif", "1E7K_1_C_modified.cif", "1A1T_1_B.cif", "1JJP.cif"]
G3_T = G3_Q + ["184D.cif", "6FC9.cif", "4gqj-assembly1.cif", "1ATO.pdb", "488d.pdb", "q-ugg-5k-salt_400-500ns_frame1065.pdb", "1ehz-assembly-1.cif", "8btk_B7.cif"]
MULTI = ["6RS3.cif", "2HY9.cif", "1ATO.pdb"]


def worker_init(tier):
    _tier[0] = tier
    import rnapolis.annotator as ann

    _seam[0] = seams.install_pair_order_seam(ann)


def BOUNDS(tier):
    q = tier == "quick"
    return dict(pair_lattice="every %s point" % ("2nd" if q else "1st"), stack_lattice="every 4th point", G2="all", G3_files=len(G3_Q if q else G3_T),
                models="all models of %s" % MULTI, schedules="d<=%d on every %s lattice point with an interaction" % ((1, "16th") if q else (2, "8th")))


def multi_model_cases():
    import functools

    for name in MULTI:
        yield dict(g=4, file=name)


CLI_FILES = ["1A1T_1_B.cif", "1ehz-assembly-1.cif", "1ATO.pdb", "4WTI_1_T-P.cif"]


def cli_cases(tier):
    """annotator.main on files: what the tool writes (CSV, JSON, BPSEQ, standard output) is what the library returns for the file read with the default model.
    Inputs: corpus files as they are; the same atoms with the only model numbered 7, with models 2 and 1 in this order, with every third residue reduced to
    base + C1'; flags: none / -f / -a / -e. Consecutive runs write to the SAME output paths (a longer output first)."""
    k = 0
    for f in CLI_FILES if tier == "quick" else CLI_FILES + ["1E7K_1_C.cif", "6FC9.cif", "1JJP.cif", "184D.cif"]:
        for variant in ("as-is", "model-7", "models-2-1", "thin-every-third"):
            for flags in ([], ["-f"], ["-a"], ["-e"]):
                k += 1
                if variant != "as-is" and flags and k % 2:
                    continue
                yield dict(g="cli", file=f, variant=variant, flags=flags)


def run_cli(case):
    import contextlib
    import io
    import sys

    from rnapolis import annotator
    from rnapolis.parser import read_3d_structure

    from mc import corpus, enumio
    from mc.props.ann_families import _BASE_AND_C1

    out = []
    t = [dict(a) for a in corpus.table(case["file"])]
    if corpus.has_altlocs(t):
        t = [a for a in t if a["altloc"] in (None, "A")]
    v = case["variant"]
    if v == "model-7":
        for a in t:
            a["model"] = 7
    elif v == "models-2-1":
        second = [dict(a, model=1, x="%.3f" % (float(a["x"]) + 200.0)) for a in t[: len(t) // 2]]
        for a in t:
            a["model"] = 2
        t = t + second
        for i, a in enumerate(t):
            a["serial"] = i + 1
    elif v == "thin-every-third":
        res = corpus.residues(t)
        t = [a for k, (_, atoms) in enumerate(res) for a in atoms if k % 3 or a["name"] in _BASE_AND_C1]
    fmt = "PDB" if corpus.pdb_expressible(t) and case["file"].endswith(".pdb") and not v.startswith("model") else "mmCIF"
    sd = scratch_dir()
    path = os.path.join(sd, "cli-in." + ("pdb" if fmt == "PDB" else "cif"))
    with open(path, "w") as f:
        f.write(enumio.emit_pdb(t) if fmt == "PDB" else enumio.emit_cif(t, label_differs=any(a["icode"] for a in t)))
    with open(path) as f:
        lib = observe(lambda: annotator.extract_secondary_structure(read_3d_structure(f, None), None, "-f" in case["flags"], "-a" in case["flags"]))
    if lib[0] == "exc":
        return dict(nontrivial=False, outcome="library-raises", violations=[])
    s2d, dbs = lib[1]
    if "-a" in case["flags"]:
        # 'the' notation of the Structure2D is the optimal one whether or not all notations were asked for
        with open(path) as f:
            plain = observe(lambda: annotator.extract_secondary_structure(read_3d_structure(f, None), None, "-f" in case["flags"], False))
        if plain[0] == "ok" and plain[1][0].dotBracket != s2d.dotBracket:
            out.append(viol("cli:structure2d-notation-depends-on-all-flag", "%s: Structure2D.dotBracket differs between all_dot_brackets=True and False" % case["file"], s2d.dotBracket[:200], plain[1][0].dotBracket[:200]))
    pc, pj, pb = (os.path.join(sd, "cli-out." + e) for e in ("csv", "json", "bpseq"))  # the same paths for every case of this worker
    old = sys.argv
    sys.argv = ["annotator", path, "-c", pc, "-j", pj, "-b", pb] + case["flags"]
    buf = io.StringIO()
    try:
        with contextlib.redirect_stdout(buf), contextlib.redirect_stderr(io.StringIO()):
            r = observe(annotator.main)
    finally:
        sys.argv = old
    if r[0] == "exc" and not r[1].startswith("exception:SystemExit"):
        return dict(nontrivial=True, outcome="cli-exc", violations=[viol("cli:" + r[1], "annotator.main raised %s (%s, %s)" % (r[2], case["file"], v))])
    bi = s2d.baseInteractions
    want = [[x.nt1.full_name, x.nt2.full_name, "base pair", x.lw.value, x.saenger.value if x.saenger else ""] for x in bi.basePairs]
    want += [[x.nt1.full_name, x.nt2.full_name, "stacking", x.topology.value if x.topology else "", ""] for x in bi.stackings]
    want += [[x.nt1.full_name, x.nt2.full_name, "base-phosphate interaction", x.bph.value if x.bph else "", ""] for x in bi.basePhosphateInteractions]
    want += [[x.nt1.full_name, x.nt2.full_name, "base-ribose interaction", x.br.value if x.br else "", ""] for x in bi.baseRiboseInteractions]
    try:
        rows = list(csv.reader(open(pc)))[1:]
    except Exception as exc:  # noqa
        rows = "unreadable: %s" % exc
    if rows != want:
        out.append(viol("cli:csv-differs-from-library", "%s (%s, flags %s): the CSV written by annotator.main differs from the interactions the library returns for the file" % (case["file"], v, case["flags"]),
                        rows[:3] if isinstance(rows, list) else rows, want[:3]))
    try:
        d = json.load(open(pj))
        got = [len(d["baseInteractions"][k]) for k in ("basePairs", "stackings", "baseRiboseInteractions", "basePhosphateInteractions")]
        if got != [len(bi.basePairs), len(bi.stackings), len(bi.baseRiboseInteractions), len(bi.basePhosphateInteractions)] or d.get("bpseq") != s2d.bpseq or d.get("dotBracket") != s2d.dotBracket:
            out.append(viol("cli:json-differs-from-library", "%s (%s): the JSON written by annotator.main differs from the library's Structure2D" % (case["file"], v), got, None))
    except Exception as exc:  # noqa
        out.append(viol("cli:json-unreadable", "%s (%s): the JSON written by annotator.main cannot be read: %s" % (case["file"], v, exc)))
    if open(pb).read().strip() != s2d.bpseq.strip():
        out.append(viol("cli:bpseq-differs-from-library", "%s (%s): the BPSEQ file differs from the library's BPSEQ" % (case["file"], v), open(pb).read()[:200], s2d.bpseq[:200]))
    exp_out = s2d.extendedDotBracket if "-e" in case["flags"] else ("\n".join(dbs) if "-a" in case["flags"] else s2d.dotBracket)
    if buf.getvalue().strip("\n") != exp_out.strip("\n"):
        out.append(viol("cli:stdout-differs-from-library", "%s (%s, flags %s): annotator.main printed something else than the library's notation" % (case["file"], v, case["flags"]), buf.getvalue()[:300], exp_out[:300]))
    n = len(want)
    return dict(nontrivial=n > 0, outcome="cli:%s" % v, violations=out)


def families(tier):
    q = tier == "quick"
    return [
        ("annotator-cli", lambda: cli_cases(tier), 4),
        ("pair-lattice", lambda: (c for k, c in enumerate(fam.g1_pairs("quick")) if k % (2 if q else 1) == 0), 64),
        ("stack-lattice", lambda: (c for k, c in enumerate(fam.g1_stack("quick")) if k % 4 == 0), 64),
        ("G2-three-nucleotides", lambda: iter(fam.g2(tier)), 8),
        ("G3-corpus", lambda: fam.corpus_cases(tier, G3_Q, G3_T), 16),
        ("near-threshold", lambda: fam.near_threshold_cases(), 16),
        # several independent placements in one structure, among them the placements whose base-phosphate / base-ribose contacts merge (3+5 -> 4, 7+9 -> 8)
        ("composed", lambda: fam.composed_cases(tier), 8),
        ("all-models", lambda: multi_model_cases(), 1),
        # one structure object holding two models (numbered 1/2, 0/1 or 5/2) of different geometry: every model's annotation must be well-formed on its own
        ("two-models", lambda: itertools.chain(fam.two_model_cases(fam.g1_stack("quick"), 41, 5), fam.two_model_cases(fam.g1_pairs("quick"), 17, 3)), 8),
        ("schedules", lambda: (dict(c, schedules=True) for k, c in enumerate(fam.g1_pairs("quick")) if k % (16 if q else 8) == 0), 4),
    ]


def digest(bi):
    k = lambda nt: ac.skey(ac.rkey(nt))
    return [sorted((k(x.nt1), k(x.nt2), x.lw.value, x.saenger.value if x.saenger else "") for x in bi.basePairs),
            sorted((k(x.nt1), k(x.nt2), x.topology.value if x.topology else "") for x in bi.stackings),
            sorted((k(x.nt1), k(x.nt2), x.br.value if x.br else "") for x in bi.baseRiboseInteractions),
            sorted((k(x.nt1), k(x.nt2), x.bph.value if x.bph else "") for x in bi.basePhosphateInteractions)]


def check_writers(s, out):
    from rnapolis.annotator import extract_secondary_structure, write_csv, write_json

    r = observe(extract_secondary_structure, s, None, False, False)
    if r[0] == "exc":
        out.append(viol("writers:extract:" + r[1], "extract_secondary_structure raised " + r[2]))
        return
    s2d = r[1][0]
    bi = s2d.baseInteractions
    sd = scratch_dir()
    pc, pj = os.path.join(sd, "o.csv"), os.path.join(sd, "o.json")
    w = observe(write_csv, pc, s2d)
    if w[0] == "exc":
        out.append(viol("writers:csv:" + w[1], "write_csv raised " + w[2]))
    else:
        rows = list(csv.reader(open(pc)))[1:]
        want = [[x.nt1.full_name, x.nt2.full_name, "base pair", x.lw.value, x.saenger.value if x.saenger else ""] for x in bi.basePairs]
        want += [[x.nt1.full_name, x.nt2.full_name, "stacking", x.topology.value if x.topology else "", ""] for x in bi.stackings]
        want += [[x.nt1.full_name, x.nt2.full_name, "base-phosphate interaction", x.bph.value if x.bph else "", ""] for x in bi.basePhosphateInteractions]
        want += [[x.nt1.full_name, x.nt2.full_name, "base-ribose interaction", x.br.value if x.br else "", ""] for x in bi.baseRiboseInteractions]
        if rows != want:
            out.append(viol("writers:csv-differs", "CSV rows differ from the interaction lists", rows[:3], want[:3]))
        # the names written are those of residues of THIS structure, spelled from their own author identity (chain.name[/]number[^icode])
        def spell(nt):
            a = nt.auth
            if a is None:
                return None
            txt = a.name if a.chain.isspace() else "%s.%s" % (a.chain, a.name)
            if a.name and a.name[-1].isdigit():
                txt += "/"
            return txt + str(a.number) + ("^%s" % a.icode if a.icode else "")

        own = {spell(r) for r in s.residues if r.auth is not None}
        lists = list(bi.basePairs) + list(bi.stackings) + list(bi.basePhosphateInteractions) + list(bi.baseRiboseInteractions)
        if len(lists) == len(rows):
            for row, x in zip(rows, lists):
                exp = [spell(x.nt1), spell(x.nt2)]
                if None in exp:
                    continue
                if row[:2] != exp or not set(exp) <= own:
                    out.append(viol("writers:csv-names", "CSV row names %s; the interaction joins %s (residues of the analysed structure spelled from their author identity)" % (row[:2], exp), row[:2], exp))
                    break
    w = observe(write_json, pj, s2d)
    if w[0] == "exc":
        out.append(viol("writers:json:" + w[1], "write_json raised " + w[2]))
    else:
        d = json.load(open(pj))["baseInteractions"]
        got = [len(d["basePairs"]), len(d["stackings"]), len(d["baseRiboseInteractions"]), len(d["basePhosphateInteractions"])]
        want = [len(bi.basePairs), len(bi.stackings), len(bi.baseRiboseInteractions), len(bi.basePhosphateInteractions)]
        num = lambda nt: (nt.get("auth") or nt.get("label") or {}).get("number")  # a residue read without a complete author identity carries its label only
        ok = got == want and all(j["lw"] == x.lw.value and num(j["nt1"]) == x.nt1.number and num(j["nt2"]) == x.nt2.number for j, x in zip(d["basePairs"], bi.basePairs))
        if not ok:
            out.append(viol("writers:json-differs", "JSON lists differ from the interaction lists", got, want))


def run_case(case):
    from rnapolis.annotator import extract_base_interactions

    if case["g"] == "cli":
        return run_cli(case)
    out = []
    n = 0
    transitions = states = 0
    if case["g"] == 4 and "m1" in case:
        s = fam.two_model_structure(case)
        mn = tuple(case.get("model_numbers", (1, 2)))
        singles = {mn[0]: fam.structure_of(case["m1"]), mn[1]: fam.structure_of(dict(case["m2"], idmode=case["m1"].get("idmode", 0)))}
        for m in (mn[0], mn[1], mn[0]):
            r = observe(extract_base_interactions, s, m)
            if r[0] == "exc":
                out.append(viol("extract:model:" + r[1], "extract_base_interactions(structure, %d) raised %s" % (m, r[2])))
                continue
            ac.judge_wellformed(refann.from_structure3d(singles[m]), r[1], out, ":other-model" if m != mn[0] else ":first-model")
            alone = observe(extract_base_interactions, singles[m])
            if alone[0] == "ok" and digest(alone[1]) != digest(r[1]):
                out.append(viol("wf:model-answer-differs", "the annotation of model %d inside a two-model object differs from the annotation of the same residues alone" % m, digest(r[1]), digest(alone[1])))
            n += sum(len(x) for x in digest(r[1]))
        u = {}
        for v in out:
            u.setdefault(v["signature"], v)
        return dict(nontrivial=n > 0, outcome="two-models", violations=list(u.values()))
    if case["g"] == 4:
        s = fam.corpus_structure_all_models(case["file"]) if hasattr(fam, "corpus_structure_all_models") else None
        from rnapolis.parser import read_3d_structure
        from mc import corpus

        models = sorted({a["model"] for a in corpus.table(case["file"], first_model_only=False)})
        for m in models:
            with open(os.path.join(corpus.TESTS, case["file"])) as f:
                sm = read_3d_structure(f, m)
            r = observe(extract_base_interactions, sm, m)
            if r[0] == "exc":
                out.append(viol("extract:" + r[1], "extract_base_interactions(model=%d) raised %s" % (m, r[2])))
                continue
            ref = refann.from_structure3d(sm, m)
            if any(res.model != m for res in sm.residues):
                out.append(viol("wf:model-mix", "structure read for model %d contains residues of another model" % m))
            ac.judge_wellformed(ref, r[1], out, ":model")
            n += sum(len(x) for x in digest(r[1]))
        u = {}
        for v in out:
            u.setdefault(v["signature"], v)
        return dict(nontrivial=n > 0, outcome="models=%d" % len(models), violations=list(u.values()))
    s = fam.corpus_variant_structure(case) if case["g"] == 3 else fam.structure_of(case)
    seams.PAIR_ORDER.fn = None
    r = observe(extract_base_interactions, s)
    if r[0] == "exc":
        return dict(nontrivial=True, outcome="exc", violations=[viol("extract:" + r[1], "extract_base_interactions raised " + r[2])])
    bi = r[1]
    ref = refann.from_structure3d(s)
    ac.judge_wellformed(ref, bi, out)
    base = digest(bi)
    n = sum(len(x) for x in base)
    if case["g"] == 3 and case["kind"] in ("identity", "jitter"):
        check_writers(s, out)
    elif case["g"] in (1, 5) and n and (case["g"] == 5 or (case["th"] + case["ph"]) % 120 == 0):
        # the writers on generated structures too: their residues share chains and numbers and differ in names from one case to the next
        check_writers(s, out)
    outcomes = {json.dumps(base)}
    if case.get("schedules") and _seam[0] and n and seams.PAIR_ORDER.last:
        from rnapolis.annotator import find_pairs
        from rnapolis.common import BaseInteractions

        find_pairs(s)
        natural, data, rr = seams.PAIR_ORDER.last
        resof = {}
        for ri, res in enumerate(s.residues):
            for a in res.atoms:
                resof[(a.x, a.y, a.z)] = ri
        inter = [k for k, (i, j) in enumerate(natural) if resof.get(tuple(data[i])) != resof.get(tuple(data[j]))]
        for perm in fam.schedules(natural, inter, 2 if (_tier[0] != "quick" and len(inter) <= 12) else 1):
            order = fam.apply_schedule(natural, inter, perm)
            seams.PAIR_ORDER.fn = lambda nat, d, order=order: order
            r2 = observe(find_pairs, s)
            seams.PAIR_ORDER.fn = None
            transitions += 1
            if r2[0] == "exc":
                out.append(viol("find_pairs-schedule:" + r2[1], "find_pairs raised %s under a permuted pair order" % r2[2]))
                continue
            b2 = BaseInteractions(r2[1][0], [], r2[1][2], r2[1][1], [])
            ac.judge_wellformed(ref, b2, out, ":schedule")
            outcomes.add(json.dumps(digest(b2)))
        states = len(outcomes)
    u = {}
    for v in out:
        u.setdefault(v["signature"], v)
    return dict(nontrivial=n > 0, outcome="bp=%d st=%d br=%d bph=%d" % tuple(min(len(x), 2) for x in base), violations=list(u.values()), states=states, transitions=transitions, traces=transitions,
                extra=dict(interactions=n))
