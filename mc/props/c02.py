"""C02 - pseudoknot order assignment is proper and optimal (form S)."""
from mc import enum2d
from mc.props.common2d import build, call, check_dbn, info, seq_of, viol
from mc.ref import ref2d

ID = "C02"
LEVEL = "exploration"
RULE = (
    "every partial matching on 1..N (M), every chord diagram of K stems x length vectors x gaps (D), ladders with non-uniform stem "
    "lengths; dot_bracket (MILP through CBC) decoded and compared with an exact branch-and-bound optimiser over all proper level "
    "assignments of the stems: proper, objective == optimum, only round brackets without crossings, no stem movable to a lower free "
    "level, objective >= objective(fcfs). non-trivial = at least two crossing stems; distinct = distinct input."
)
ASSUMPTIONS = [
    "only the objective value is compared (ties between optimal assignments are legitimate)",
    "CBC returns an optimal solution of the MILP it is given (a sub-optimal answer would be reported as a violation)",
]


def BOUNDS(tier):
    q = tier == "quick"
    return dict(M_N=10 if q else 12, D_K=4 if q else 5, D_lengths="K<=4: {1,2,3}; K=5: {1,2}", D_gaps=[0, 1],
                D6="none" if q else "all 10395 diagrams x length vectors with at most one long stem x gaps {0,1}",
                ladders="K=2..10 x 3 length patterns + K=11 x 1 pattern" if q else "K=2..12 x 3 length patterns")


def _ladders(kmax):
    for K in range(2, kmax + 1):
        for pat in range(3):
            if pat == 0:
                lengths = [1 + (i % 3) for i in range(K)]
            elif pat == 1:
                lengths = [3 - (i % 3) for i in range(K)]
            else:
                lengths = [1] * (K - 1) + [4]
            c = enum2d.ladder(K, lengths)
            c["ladder"] = K
            c["lengths"] = lengths
            yield c


def _many_stems(tier):
    """More than ten stems (two-digit region and variable indices): h hairpins of stem length 1-2 before, between or after the stems of a small
    knot (H-type with unequal stems, kissing hairpins, three mutually crossing stems). Built as chord diagrams: each hairpin is an arc (e, e+1)."""
    knots = {"H": [(0, 2), (1, 3)], "kissing": [(0, 2), (1, 4), (3, 5)], "triangle": [(0, 3), (1, 4), (2, 5)]}
    for h in ((9, 10, 12, 32, 33, 34, 100, 520) if tier == "quick" else (8, 9, 10, 11, 12, 14, 18, 31, 32, 33, 34, 35, 64, 100, 255, 256, 257, 520, 700)):
        for name, karcs in knots.items():
            for where in ("before", "after", "inside"):
                if h > 30 and (name, where) not in (("H", "before"), ("kissing", "inside"), ("triangle", "after")):
                    continue  # several dozen / several hundred stems: one placement per knot kind
                K = h + len(karcs)
                npts = 2 * len(karcs)
                if where == "before":
                    arcs = [(2 * i, 2 * i + 1) for i in range(h)] + [(2 * h + a, 2 * h + b) for a, b in karcs]
                elif where == "after":
                    arcs = list(karcs) + [(npts + 2 * i, npts + 2 * i + 1) for i in range(h)]
                else:
                    # hairpins between the first and the second endpoint of the knot
                    arcs = [(0 if a == 0 else a + 2 * h, b + 2 * h) for a, b in karcs] + [(1 + 2 * i, 2 + 2 * i) for i in range(h)]
                arcs = sorted(arcs)
                for pat in range(2):
                    lengths = [1 + ((i + pat) % 2) for i in range(K)]
                    c = enum2d.chord_structure(tuple(arcs), lengths, [1] * (2 * K + 1))
                    c["many"] = "%s+%d hairpins %s" % (name, h, where)
                    yield c


PRE = ("convert-none", "convert-raise", "fcfs+all+elements", "sibling-lengths", "sibling-gap")


def _after_calls(tier):
    """'The' notation asked for AFTER other calls: an explicit conversion without / with a failing solver on the same object, the other notations and
    the elements of the same object, and - on another object in the same process - the same chord diagram with other stem lengths or another gap
    (same crossing pattern, another optimum). Every knotted chord diagram of 2-3 stems (thorough: 4) x lengths {1,2,3} x the five preludes."""
    q = tier == "quick"
    for c in enum2d.D(3 if q else 4, lens=(1, 2, 3), kmin=2, gapvals=(0, 1)):
        _, _, knotted, _ = info(c)
        if not knotted:
            continue
        for pre in PRE:
            yield {**c, "pre": pre}


def _prelude(case, b, out):
    from mc import seams

    pre = case["pre"]
    if pre == "convert-none":
        call("pre:convert_to_dot_bracket(None)", b.convert_to_dot_bracket, out, None)
    elif pre == "convert-raise":
        call("pre:convert_to_dot_bracket(failing solver)", b.convert_to_dot_bracket, out, seams.FaultSolver(["raise"]))
    elif pre == "fcfs+all+elements":
        call("pre:fcfs", lambda: b.fcfs, out)
        call("pre:all_dot_brackets", lambda: b.all_dot_brackets, out)
        call("pre:elements", lambda: b.elements, out)
    else:
        arcs = tuple(tuple(a) for a in case["diagram"])
        K = len(arcs)
        if pre == "sibling-lengths":
            sibs = [enum2d.chord_structure(arcs, lv, [case["gap"]] * (2 * K + 1)) for lv in (case["lengths"][::-1], [4 - x for x in case["lengths"]])]
        else:
            sibs = [enum2d.chord_structure(arcs, case["lengths"], [g] * (2 * K + 1)) for g in (1 - case["gap"], 2)]
        for sc in sibs:
            sb = call("pre:sibling", build, out, sc)
            if sb is not None:
                call("pre:sibling.dot_bracket", lambda: sb.dot_bracket, out)


def _long_chains(tier):
    """Two or three crossing stems separated by long unpaired stretches (chains of up to 12 000 / 40 000 nucleotides): the optimum depends on stem lengths
    alone, never on where in the chain a stem sits."""
    for P in ((60, 1500, 2600, 12000) if tier == "quick" else (60, 700, 1500, 2600, 5200, 12000, 40000)):
        for la, lb in ((4, 5), (5, 4), (1, 2), (2, 1), (3, 3), (9, 10)):
            a5 = list(range(1, la + 1))
            b5 = list(range(P, P + lb))
            a3 = list(range(P + lb + 7, P + lb + 7 + la))
            b3 = list(range(a3[-1] + 1 + P // 3, a3[-1] + 1 + P // 3 + lb))
            pairs = sorted([[i, j] for i, j in zip(a5, reversed(a3))] + [[i, j] for i, j in zip(b5, reversed(b3))])
            yield dict(n=b3[-1] + 3, pairs=pairs, long=P)
            # a third stem crossing the second one only, far downstream
            c5 = list(range(b3[0] - 4 - la, b3[0] - 4))
            c3 = list(range(b3[-1] + P, b3[-1] + P + la))
            yield dict(n=c3[-1] + 1, pairs=sorted(pairs + [[i, j] for i, j in zip(c5, reversed(c3))]), long=P)


def _long_stems(tier):
    """Crossing stems of 100-300 base pairs each (more than 256 bracket characters of one kind): H-type knots and three kissing stems."""
    for la, lb in ((150, 140), (140, 150), (300, 2), (2, 300)) + (() if tier == "quick" else ((257, 257), (129, 128))):
        yield {**enum2d.chord_structure(((0, 2), (1, 3)), [la, lb], [1] * 5), "longstems": [la, lb]}
    for lens in ((90, 100, 110), (130, 1, 130)):
        yield {**enum2d.chord_structure(((0, 2), (1, 4), (3, 5)), list(lens), [2] * 7), "longstems": list(lens)}


def families(tier):
    q = tier == "quick"
    fams = [
        ("long-stems", lambda: _long_stems(tier), 1),
        ("long-chains", lambda: _long_chains(tier), 1),
        ("after-calls", lambda: _after_calls(tier), 1),
        ("many-stems", lambda: _many_stems(tier), 1),
        ("many-groups", lambda: __import__("mc.props.c16", fromlist=["x"])._many_groups(), 1),
        ("M", lambda: enum2d.M(10 if q else 12), 1),
        ("D", lambda: enum2d.D(4, lens=(1, 2, 3)), 1),
        ("Lad", lambda: (c for c in _ladders(11 if q else 12) if q is False or c["ladder"] <= 10 or c["lengths"][1] == 2), 1),  # 11 mutually crossing stems (one length pattern in quick: ~10 s): a two-digit level number in the MILP read-back
    ]
    if not q:
        fams.append(("D5", lambda: enum2d.D(5, kmin=5), 1))
        lf = lambda lv: sum(1 for x in lv if x == 2) <= 1
        fams.append(("D6", lambda: enum2d.D(6, kmin=6, length_filter=lf), 1))
    return fams


def run_case(case):
    out = []
    seq = seq_of(case)
    stems, graph, knotted, maxcomp = info(case)
    b = call("from_string", build, out, case)
    if b is None:
        return dict(nontrivial=True, outcome="build-failed", violations=out)
    if "pre" in case:
        _prelude(case, b, out)
    d = call("dot_bracket", lambda: b.dot_bracket, out)
    f = call("fcfs", lambda: b.fcfs, out)
    outcome = "knotted" if knotted else "nested"
    n_pre = len(out)
    if d is not None:
        dec = check_dbn("dot_bracket", case, seq, d, out)
        if dec is not None:
            levels = ref2d.stem_levels(stems, dec)
            if None in levels:
                out.append(viol("stem-split-across-levels", "a stem is written on several levels", d.structure, stems))
            else:
                for a in graph:
                    for c in graph[a]:
                        if a < c and levels[a] == levels[c]:
                            out.append(viol("improper", "crossing stems share level", d.structure, [stems[a], stems[c]]))
                if not knotted and any(levels):
                    out.append(viol("nested-not-round", "pseudoknot-free structure uses a higher bracket", d.structure, "only ()"))
                obj = ref2d.objective(stems, levels)
                opt = ref2d.optimum(stems, graph)
                if obj != opt:
                    out.append(viol("suboptimal" if obj < opt else "above-optimum",
                                    "objective %d of %s differs from the exact optimum %d" % (obj, d.structure, opt), obj, opt))
                for a in graph:
                    nb = {levels[c] for c in graph[a]}
                    if any(l not in nb for l in range(levels[a])):
                        out.append(viol("movable-lower", "stem %s on level %d could move to a lower free level" % (stems[a], levels[a]), d.structure, None))
                        break
                if f is not None:
                    fdec, fp = ref2d.decode(f.structure)
                    fl = ref2d.stem_levels(stems, fdec)
                    if not fp and None not in fl and set(fdec) == set(dec):
                        fo = ref2d.objective(stems, fl)
                        if obj < fo:
                            out.append(viol("worse-than-fcfs", "objective %d < fcfs objective %d" % (obj, fo), d.structure, f.structure))
                        if knotted:
                            outcome += " opt>fcfs" if obj > fo else " opt=fcfs"
                    else:
                        # 'never worse than first-come-first-served' presupposes that the baseline is a notation of the same structure
                        out.append(viol("fcfs-baseline-invalid", "the first-come-first-served notation %s is not an encoding of %s, so the result cannot be compared with it" % (f.structure, case["pairs"]),
                                        f.structure, d.structure))
                outcome += " levels=%d" % (max(levels) + 1 if levels else 0)
    if "pre" in case:
        for v in out[n_pre:]:
            v["signature"] += ":after:" + case["pre"]
            v["message"] = "(after %s) %s" % (case["pre"], v["message"])
    return dict(nontrivial=knotted, outcome=outcome, violations=out)
