"""C06 - 3D-to-2D mapping gives a valid matching and faithful text for any pair list (form S)."""
import itertools
import re

import numpy as np

from mc import enum3d
from mc.engine import observe
from mc.props import ann_common as ac
from mc.props.common2d import viol
from mc.ref import ref2d, refann

ID = "C06"
LEVEL = "exploration"
RULE = (
    "five host structures built from the 1ehz acceptor stem (5 nucleotides in two chains; a single chain with a deleted residue so that gap "
    "detection inserts '?' - in the middle, right behind the first nucleotide, right before the last one; a structure containing a non-nucleotide group) x ALL SEQUENCES of up to L entries from the entry alphabet {ordered "
    "residue pairs over 4 nucleotides + 1 absent residue} x {cWW, tWW, cWH[, cHW]} x {no Saenger, table Saenger}, with and without gap detection; "
    "sequences (not sets) because row filling and conflict resolution are order sensitive - duplicates, reversed duplicates, multiplets of degree "
    "3 and dangling entries occur by construction. Oracle: BPSEQ numbering/letters/placeholders, symmetric matching, every BPSEQ pair a canonical "
    "input pair, every conflict-free canonical pair kept, per-strand dot-bracket == sequence and matching, every extended row balanced and of full "
    "length, rows of class X decode (as a multiset) to exactly the distinct input pairs of class X; all_dot_brackets members decode to the matching; "
    "adapter.extract_secondary_structure_from_external returns the same texts. Plus, for corpus structures: the structure's own annotation as the list, "
    "reversed, duplicated, with every pair also reversed, and extended by every single extra entry over the first/last nucleotides and an absent residue. non-trivial = at least one entry between present nucleotides; "
    "distinct = (host, gaps, entry sequence)."
)
ASSUMPTIONS = [
    "which residues are nucleotides is taken from Residue3D.is_nucleotide; one-letter names from the structure",
    "Saenger values supplied with an entry are the 28-class table value, none, or XIX on a cWW entry whose letters define no class (as an external tool may report for modified residues)",
]
_tier = ["quick"]


def worker_init(tier):
    _tier[0] = tier


def _spec(r, chain, number=None, icode=None):
    return (chain, number if number is not None else r["number"], icode, r["name"], r["name"], [(n, np.array([x, y, z])) for n, x, y, z, el in r["atoms"]])


def hosts():
    d = enum3d.TEMPLATES["duplex"]
    h1 = [_spec(d[0], "A"), _spec(d[1], "A"), _spec(d[2], "A"), _spec(d[12], "B"), _spec(d[13], "B")]
    # single chain 1..7 without residue 4 -> gap between 3 and 5; use residues 1,2,3,5,6 (G C G A U)
    h2 = [_spec(d[0], "A"), _spec(d[1], "A"), _spec(d[2], "A"), _spec(d[4], "A"), _spec(d[5], "A")]
    lig = ("A", 50, None, "LIG", "?", [("C1", np.array([40.0, 40.0, 40.0])), ("O1", np.array([41.2, 40.0, 40.0])), ("N1", np.array([40.0, 41.3, 40.0]))])
    h3 = [_spec(d[0], "A"), _spec(d[1], "A"), lig, _spec(d[5], "A"), _spec(d[7], "B"), _spec(d[13], "B")]
    # the gap right behind the first nucleotide (residue 2 deleted) and right before the last one (residue 5 deleted)
    h4 = [_spec(d[0], "A"), _spec(d[2], "A"), _spec(d[3], "A"), _spec(d[4], "A"), _spec(d[5], "A")]
    h5 = [_spec(d[0], "A"), _spec(d[1], "A"), _spec(d[2], "A"), _spec(d[3], "A"), _spec(d[5], "A")]
    # a chain that comes back after another chain (A A B B A): strands are the runs of the file, not the distinct chain names
    h6 = [_spec(d[0], "A"), _spec(d[1], "A"), _spec(d[12], "B"), _spec(d[13], "B"), _spec(d[2], "A")]
    # an abasic nucleotide (no base atoms, unrecognisable name): its one-letter name is '?', a legal letter that must appear as such in every text
    ab = d[0]
    abasic = ("A", ab["number"], None, "3DR", "?", [(n, np.array([x, y, z])) for n, x, y, z, el in ab["atoms"] if n in ("P", "OP1", "OP2", "O5'", "C5'", "C4'", "O4'", "C3'", "O3'", "C2'", "O2'", "C1'")])
    h7 = [abasic, _spec(d[1], "A"), _spec(d[2], "A"), _spec(d[12], "B"), _spec(d[13], "B")]
    # numbering that goes DOWN across a chain break (41 42 43 | 10 11): no residue is missing between 43 and 10, so no placeholder belongs there
    h8 = [_spec(d[0], "A", 41), _spec(d[1], "A", 42), _spec(d[2], "A", 43), _spec(d[4], "A", 10), _spec(d[5], "A", 11)]
    # a chain break inside a run of insertion codes (7, 8A | 8C, 9: residue 8B is not there): the numbers do not differ, so no placeholder is due
    h9 = [_spec(d[0], "A", 7), _spec(d[1], "A", 8, "A"), _spec(d[3], "A", 8, "C"), _spec(d[4], "A", 9), _spec(d[5], "A", 10)]
    return {"icode-run-break": h9, "numbers-descend": h8, "two-chains": h1, "gap": h2, "with-ligand": h3, "gap-after-first": h4, "gap-before-last": h5, "chain-returns": h6, "abasic-first": h7}


_hosts = {}


def host(name):
    if name not in _hosts:
        if name.startswith("file:"):
            from mc.props import ann_families as fam

            _hosts[name] = fam.corpus_structure(name[5:])
        else:
            _hosts[name] = ac.build_structure(hosts()[name])
    return _hosts[name]


CORPUS_Q = ["1DFU_1_M-N.cif", "4WTI_1_T-P.cif", "1E7K_1_C.cif", "1A1T_1_B.cif", "1JJP.cif", "6FC9.cif"]
CORPUS_T = CORPUS_Q + ["184D.cif", "4gqj-assembly1.cif", "1ATO.pdb", "6RS3.cif", "488d.pdb", "1ehz-assembly-1.cif", "4qln.cif"]
_own = {}


def own_entries(name):
    """The structure's own annotation as entries over all of its nucleotides."""
    if name not in _own:
        from rnapolis.annotator import extract_base_interactions

        s = host("file:" + name)
        nts = [r for r in s.residues if r.is_nucleotide]
        pos = {(r.chain, r.number, r.icode): k for k, r in enumerate(nts)}
        ents = []
        for bp in extract_base_interactions(s).basePairs:
            a, b = pos.get((bp.nt1.chain, bp.nt1.number, bp.nt1.icode)), pos.get((bp.nt2.chain, bp.nt2.number, bp.nt2.icode))
            if a is not None and b is not None:
                ents.append([a, b, bp.lw.value, bp.saenger.value if bp.saenger else None])
        _own[name] = (ents, len(nts))
    return _own[name]


def corpus_cases(tier):
    for name in (CORPUS_Q if tier == "quick" else CORPUS_T):
        ents, n = own_entries(name)
        for gaps in (False, True):
            base = dict(host="file:" + name, gaps=gaps, general=True)
            yield dict(base, entries=ents)
            yield dict(base, entries=ents + [[j, i, lw[0] + lw[2] + lw[1], sa] for i, j, lw, sa in ents])  # every pair also reversed
            yield dict(base, entries=ents[::-1])
            yield dict(base, entries=ents + ents)
            # one extra entry from a small alphabet over the first / last nucleotides: conflicts, multiplets, dangling
            idx = sorted(set(list(range(min(n, 4))) + list(range(max(0, n - 3), n))))
            for i, j in itertools.permutations(idx + [-1], 2):
                for lw in ("cWW", "tWW", "cWH"):
                    yield dict(base, entries=ents + [[i, j, lw, None]])
                    if tier != "quick":
                        yield dict(base, entries=[[i, j, lw, None]] + ents)


LWS_Q = ["cWW", "tWW", "cWH"]
LWS_T = ["cWW", "tWW", "cWH", "cHW"]


def alphabet(hostname, tier):
    """Entries (i, j, lw, saenger-or-None); indices into the host's nucleotide list, 4 = absent residue."""
    s = host(hostname)
    nts = [r for r in s.residues if r.is_nucleotide][:4]
    ents = []
    for i, j in itertools.permutations(range(5), 2):
        for lw in (LWS_Q if tier == "quick" else LWS_T):
            ents.append((i, j, lw, None))
            if i < 4 and j < 4:
                sa = refann.SAENGER.get((nts[i].one_letter_name + nts[j].one_letter_name, lw))
                if sa:
                    ents.append((i, j, lw, sa))
                elif lw == "cWW" and i < j:
                    # an external tool may classify a pair as Watson-Crick although the letters read from the file do not say so (modified or
                    # mis-named residues): the supplied Saenger class decides, so this entry is canonical while its class-less twin is not
                    ents.append((i, j, lw, "XIX"))
    return ents


def BOUNDS(tier):
    q = tier == "quick"
    return dict(hosts=len(hosts()), gaps=[False, True], alphabet={h: len(alphabet(h, tier)) for h in hosts()}, length=2 if q else 3,
                corpus_files=len(CORPUS_Q if q else CORPUS_T), length3="none" if q else "all triples whose entries touch at most 3 distinct residue pairs or repeat a class (multiplets, duplicates) - see cases()")


def cases(tier):
    q = tier == "quick"
    for hn in hosts():
        al = alphabet(hn, tier)
        # the three original hosts get all pairs of entries; the hosts added for numbering / strand slicing get all single entries and all pairs
        # over the class-less cWW / cWH entries (their subject is the text layout, not conflict resolution)
        al2 = al if (hn in ("two-chains", "gap", "with-ligand") or not q) else [e for e in al if e[3] is None and e[2] in ("cWW", "cWH")]
        for gaps in (False, True):
            yield dict(host=hn, gaps=gaps, entries=[])
            for a in al:
                yield dict(host=hn, gaps=gaps, entries=[list(a)])
            for a, b in itertools.product(al2, repeat=2):
                yield dict(host=hn, gaps=gaps, entries=[list(a), list(b)])
            if not q:
                # triples: restricted to entries without Saenger and to residue 0 as hub or one shared class, so that degree-3 multiplets,
                # duplicates and conflicts all occur; (stated bound, enumerated completely)
                plain = [e for e in al if e[3] is None and e[2] in ("cWW", "tWW")]
                for a, b, c in itertools.product(plain, repeat=3):
                    if len({a[2], b[2], c[2]}) == 1 or 0 in (a[0], a[1]) and 0 in (b[0], b[1]) and 0 in (c[0], c[1]):
                        yield dict(host=hn, gaps=gaps, entries=[list(a), list(b), list(c)])
    if q:
        # the degree-3 multiplet and the double-Saenger duplicate are explicit members also in quick mode
        for hn in hosts():
            for lw in LWS_Q:
                yield dict(host=hn, gaps=False, entries=[[0, 1, lw, None], [0, 2, lw, None], [0, 3, lw, None]])
                yield dict(host=hn, gaps=True, entries=[[0, 3, lw, None], [2, 0, lw, None], [1, 0, lw, None]])


def families(tier):
    return [("entry-sequences", lambda: cases(tier), 64), ("corpus-own-annotation", lambda: corpus_cases(tier), 16)]


def parse_strands(text):
    blocks = re.findall(r">strand_(\S*)\n(\S*)\n(\S*)", text)
    return blocks


def run_case(case):
    from rnapolis.adapter import extract_secondary_structure_from_external
    from rnapolis.common import BaseInteractions, BasePair, LeontisWesthof, Residue, ResidueAuth, Saenger
    from rnapolis.tertiary import Mapping2D3D

    s = host(case["host"])
    nts_all = [r for r in s.residues if r.is_nucleotide]
    general = case.get("general", False)
    nts = nts_all if general else nts_all[:4]
    NP = len(nts) if general else 4  # indices >= NP (or negative) name the absent residue
    absent = Residue(None, ResidueAuth("Z", 999, None, "G"))

    def present(k):
        return 0 <= k < NP

    def res(k):
        return Residue(nts[k].label, nts[k].auth) if present(k) else absent

    bps = [BasePair(res(i), res(j), LeontisWesthof[lw], Saenger[sa] if sa else None) for i, j, lw, sa in case["entries"]]
    out = []
    m = Mapping2D3D(s, bps, [], case["gaps"])
    r = observe(lambda: (str(m.bpseq), m.dot_bracket, m.extended_dot_bracket, list(m.all_dot_brackets), list(m.strands_sequences)))
    if r[0] == "exc":
        return dict(nontrivial=True, outcome="exc", violations=[viol("mapping:" + r[1], "Mapping2D3D raised %s for entries %s" % (r[2], case["entries"]))])
    bpseq_text, dbn_text, ext_text, alldb, strands = r[1]
    # the same questions once more on the same object, and in the opposite order on a second object: the answers are functions of the input alone
    again = observe(lambda: (str(m.bpseq), m.dot_bracket, m.extended_dot_bracket, list(m.all_dot_brackets), list(m.strands_sequences)))
    if again[0] == "exc" or again[1] != r[1]:
        out.append(viol("mapping:second-asking-differs", "Mapping2D3D answers differently when asked again (entries %s)" % case["entries"], again[1] if again[0] == "ok" else again[2], None))
    m2 = Mapping2D3D(s, bps, [], case["gaps"])
    rev = observe(lambda: (list(m2.strands_sequences), list(m2.all_dot_brackets), m2.extended_dot_bracket, m2.dot_bracket, str(m2.bpseq)))
    if rev[0] == "exc" or tuple(rev[1][::-1]) != tuple(r[1]):
        out.append(viol("mapping:order-of-questions", "Mapping2D3D answers depend on the order in which they are asked (entries %s)" % case["entries"], rev[1] if rev[0] == "ok" else rev[2], None))
    # ---- expected numbering
    exp_seq = []
    index_of = {}
    prev = None
    for rr in nts_all:
        if case["gaps"] and prev is not None and prev.chain == rr.chain:
            a, b = prev.find_atom("O3'"), rr.find_atom("P")
            connected = a is not None and b is not None and float(np.linalg.norm(a.coordinates - b.coordinates)) < 2.4
            if not connected:
                exp_seq.extend("?" * max(0, rr.number - prev.number - 1))
        exp_seq.append(rr.one_letter_name)
        index_of[(rr.chain, rr.number, rr.icode)] = len(exp_seq)
        prev = rr
    lines = [ln.split() for ln in bpseq_text.splitlines() if ln.strip()]
    got_seq = [f[1] for f in lines]
    if [int(f[0]) for f in lines] != list(range(1, len(lines) + 1)) or got_seq != exp_seq:
        out.append(viol("bpseq:numbering", "BPSEQ numbering/letters differ (gaps=%s)" % case["gaps"], "".join(got_seq), "".join(exp_seq)))
        return dict(nontrivial=True, outcome="numbering", violations=out)
    partner = {int(f[0]): int(f[2]) for f in lines}
    pairs = set()
    for i, j in partner.items():
        if j:
            if partner.get(j) != i or i == j:
                out.append(viol("bpseq:asymmetric", "BPSEQ pairing is not symmetric at %d-%d" % (i, j), bpseq_text, None))
            pairs.add((min(i, j), max(i, j)))
    # ---- canonical input pairs
    key = lambda k: (nts[k].chain, nts[k].number, nts[k].icode)
    canon = []
    distinct = {}
    for i, j, lw, sa in case["entries"]:
        if not present(i) or not present(j):
            continue
        a, b = index_of[key(i)], index_of[key(j)]
        if a > b:
            a, b = b, a
            lwo = lw[0] + lw[2] + lw[1]
        else:
            lwo = lw
        distinct[(a, b, lwo)] = distinct.get((a, b, lwo), 0) + 1
        letters = "".join(sorted([nts[i].one_letter_name.upper(), nts[j].one_letter_name.upper()]))
        if sa:
            is_c = sa in ("XIX", "XX", "XXVIII")
        else:
            is_c = lw == "cWW" and letters in ("AU", "AT", "CG", "GU")
        if is_c:
            canon.append((a, b))
    cset = set(canon)
    for p in pairs:
        if p not in cset:
            out.append(viol("bpseq:non-canonical-pair", "BPSEQ pair %s is not a canonical input pair (entries %s)" % (p, case["entries"]), bpseq_text, sorted(cset)))
    for p in cset:
        if not any(q != p and (q[0] in p or q[1] in p) for q in cset) and p not in pairs:
            out.append(viol("bpseq:conflict-free-pair-lost", "canonical pair %s conflicts with no other but is not in the BPSEQ" % (p,), bpseq_text, None))
    # ---- per-strand dot-bracket
    blocks = parse_strands(dbn_text)
    cat_seq = "".join(b[1] for b in blocks)
    cat_str = "".join(b[2] for b in blocks)
    if cat_seq != "".join(exp_seq) or [(c, sq) for c, sq, _ in blocks] != [(c, sq) for c, sq in strands]:
        out.append(viol("dbn:sequence", "per-strand dot-bracket does not concatenate to the BPSEQ sequence", cat_seq, "".join(exp_seq)))
    else:
        dec, probs = ref2d.decode(cat_str)
        if probs or set(dec) != pairs:
            out.append(viol("dbn:pairs", "per-strand dot-bracket does not decode to the BPSEQ matching", cat_str, sorted(pairs)))
    chains_expected = []
    for rr in nts_all:
        if not chains_expected or chains_expected[-1] != rr.chain:
            chains_expected.append(rr.chain)  # one strand per run of a chain in file order
    if [b[0] for b in blocks] != chains_expected:
        out.append(viol("dbn:strands", "strands are not the chains in file order", [b[0] for b in blocks], chains_expected))
    for txt in alldb:
        bl = parse_strands(txt)
        st = "".join(b[2] for b in bl)
        dec, probs = ref2d.decode(st)
        if probs or set(dec) != pairs or "".join(b[1] for b in bl) != "".join(exp_seq):
            out.append(viol("all_dot_brackets:member", "a member of all_dot_brackets does not encode the BPSEQ", txt, None))
    # ---- extended dot-bracket
    rows = {}
    cur = -1
    seqs = []
    ok = True
    for ln in ext_text.splitlines():
        if ln.startswith("    >strand_"):
            cur += 1
            continue
        tag, _, val = ln.partition(" ")
        if tag == "seq":
            seqs.append(val)
            continue
        rows.setdefault(cur, []).append((tag, val))
    if "".join(seqs) != "".join(exp_seq):
        out.append(viol("extended:sequence", "extended dot-bracket sequences differ", "".join(seqs), "".join(exp_seq)))
        ok = False
    nrows = {len(v) for v in rows.values()} or {0}
    if len(nrows) > 1 or (rows and any(len(val) != len(seqs[c]) for c, v in rows.items() for _, val in v)):
        out.append(viol("extended:row-length", "extended rows differ in number or length between strands", ext_text, None))
        ok = False
    if ok:
        got = {}
        n = nrows.pop()
        for k in range(n):
            tags = {rows[c][k][0] for c in rows}
            full = "".join(rows[c][k][1] for c in sorted(rows))
            if len(tags) != 1:
                out.append(viol("extended:row-tags", "row %d carries different class tags in different strands" % k, ext_text, None))
                continue
            tag = tags.pop()
            dec, probs = ref2d.decode(full)
            if probs:
                out.append(viol("extended:unbalanced-row", "extended row %s %s is not balanced" % (tag, full), ext_text, None))
                continue
            for p in dec:
                got[(p[0], p[1], tag)] = got.get((p[0], p[1], tag), 0) + 1
        want = {k: 1 for k in distinct}
        # the property does not say how a class is oriented when file order and identity order of the two residues disagree:
        # for such pairs either orientation of the tag is accepted
        byidx = {v: k for k, v in index_of.items()}
        for (a, b, tag) in list(got):
            ka, kb = byidx.get(a), byidx.get(b)
            if ka is not None and kb is not None and (ka[0], ka[1], ka[2] or " ") > (kb[0], kb[1], kb[2] or " "):
                rtag = tag[0] + tag[2] + tag[1]
                if (a, b, tag) not in want and (a, b, rtag) in want and (a, b, rtag) not in got:
                    got[(a, b, rtag)] = got.pop((a, b, tag))
        if got != want:
            lost = sorted(k for k in want if k not in got)
            dup = sorted(k for k, v in got.items() if v > 1)
            inv = sorted(k for k in got if k not in want)
            kind = "lost" if lost else ("twice" if dup else "invented")
            deg = max([sum(1 for q in want if q[2] == k[2] and (k[0] in q[:2] or k[1] in q[:2])) for k in (lost or dup or inv)] + [0])
            out.append(viol("extended:pairs-%s" % kind, "extended rows do not encode every distinct input pair exactly once: lost %s, twice %s, invented %s (entries %s)" % (lost, dup, inv, case["entries"]),
                            ext_text, sorted(want)))
    # ---- adapter path
    ra = observe(extract_secondary_structure_from_external, s, BaseInteractions(bps, [], [], [], []), None, case["gaps"], True)
    if ra[0] == "exc":
        out.append(viol("adapter:" + ra[1], "extract_secondary_structure_from_external raised " + ra[2]))
    else:
        s2d, dbs, _ = ra[1]
        if (s2d.bpseq, s2d.dotBracket, s2d.extendedDotBracket, list(dbs)) != (bpseq_text, dbn_text, ext_text, alldb):
            out.append(viol("adapter:differs", "extract_secondary_structure_from_external returns other texts than Mapping2D3D", None, None))
    u = {}
    for v in out:
        u.setdefault(v["signature"], v)
    npresent = [e for e in case["entries"] if present(e[0]) and present(e[1])]
    return dict(nontrivial=bool(npresent), outcome="pairs=%d distinct=%d q=%d" % (len(pairs), min(len(distinct), 3), exp_seq.count("?")), violations=list(u.values()))
