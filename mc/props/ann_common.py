"""Shared judges for the annotation properties (C03, C04, C11) and structure builders."""
import math

import numpy as np

from mc.props.common2d import viol
from mc.ref import refann

LETTERS = "ACGUT"


def build_residues(residue_specs, model=1):
    from rnapolis.common import ResidueAuth, ResidueLabel
    from rnapolis.tertiary import Atom, Residue3D

    res = []
    for chain, num, icode, rn, letter, atoms, *rest in residue_specs:
        auth = ResidueAuth(chain, num, icode, rn)
        # optional seventh element: the label identity (label chain, label number) of an mmCIF-derived residue
        label = ResidueLabel(rest[0][0], rest[0][1], rn) if rest and rest[0] else None
        al = tuple(Atom(None, label, auth, model, n, float(p[0]), float(p[1]), float(p[2]), 1.0) for n, p in atoms)
        res.append(Residue3D(label, auth, model, letter, al))
    return res


def build_structure(residue_specs):
    """residue_specs: [(chain, number, icode, resname, letter, [(atom name, xyz)])] -> Structure3D built directly from objects."""
    from rnapolis.tertiary import Structure3D

    return Structure3D(build_residues(residue_specs))


def rkey(nt):
    lab = getattr(nt, "label", None)
    return (nt.chain, nt.number, nt.icode) + ((lab.chain, lab.number) if lab is not None else ())


def skey(k):
    return (k[0], k[1], k[2] or " ")


class PairJudge:
    """C03 oracle for one structure; reference quantities are computed once and reused for every schedule of that structure."""

    def __init__(self, ref):
        self.ref = ref
        self.bykey = {}
        for r in ref:
            self.bykey.setdefault(r.key, r)
        self._sup = {}
        self._ct = {}
        self._cands = None

    def support(self, k1, k2):
        if (k1, k2) not in self._sup:
            r1, r2 = self.bykey[k1], self.bykey[k2]
            cons = refann.contacts(r1, r2, liberal=True)
            self._sup[(k1, k2)] = (refann.edge_support(r1, r2, cons), cons)
            m = refann.Margin()
            self._ct[(k1, k2)] = (refann.cis_trans(r1, r2, m), m.value)
        return self._sup[(k1, k2)], self._ct[(k1, k2)]

    def candidates(self):
        if self._cands is None:
            self._cands = refann.base_pair_candidates(self.ref)
        return self._cands

    def judge(self, base_pairs, out, tag=""):
        occupied = {}
        reported = {}
        und = 0
        for bp in base_pairs:
            k1, k2 = rkey(bp.nt1), rkey(bp.nt2)
            lw = bp.lw.value
            ct, e1, e2 = lw[0], lw[1], lw[2]
            if k1 == k2:
                out.append(viol("pair:same-residue" + tag, "base pair joins residue %s with itself" % (k1,)))
                continue
            if k1 not in self.bykey or k2 not in self.bykey:
                out.append(viol("pair:unknown-residue" + tag, "base pair names a residue that is not in the structure: %s %s" % (k1, k2)))
                continue
            (sup, cons), (rct, ctm) = self.support(k1, k2)
            if sup.get((e1, e2), 0) < 2:
                out.append(viol("pair:unsupported" + tag, "pair %s-%s %s has %d distinct donor-acceptor contact(s) on edges %s/%s (contacts %s)" % (k1, k2, lw, sup.get((e1, e2), 0), e1, e2, cons),
                                lw, ">= 2 distinct contacts"))
            if rct is None:
                out.append(viol("pair:cis-trans-undefined" + tag, "pair %s-%s reported although the C1'-N...N-C1' torsion is undefined" % (k1, k2)))
            elif ctm >= refann.EPS and rct != ct:
                out.append(viol("pair:cis-trans" + tag, "pair %s-%s reported as %s, the glycosidic torsion says %s" % (k1, k2, ct, rct), ct, rct))
            if not skey(k1) < skey(k2):
                out.append(viol("pair:orientation" + tag, "pair %s-%s does not list the lower residue first" % (k1, k2)))
            for k, e in ((k1, e1), (k2, e2)):
                if (k, e) in occupied:
                    out.append(viol("pair:edge-used-twice" + tag, "edge %s of %s is used by two reported pairs (%s and %s)" % (e, k, occupied[(k, e)], (k1, k2, lw))))
                occupied[(k, e)] = (k1, k2, lw)
            reported[(k1, k2, lw)] = True
        demanded = 0
        for c in self.candidates():
            if c.get("undecided"):
                und += 1
                continue
            k1, k2 = c["r1"].key, c["r2"].key
            lw = c["ct"] + c["e1"] + c["e2"]
            demanded += 1
            if (k1, k2, lw) in reported:
                continue
            if occupied.get((k1, c["e1"])) is None and occupied.get((k2, c["e2"])) is None:
                out.append(viol("pair:missing" + tag, "residues %s and %s have %d base-to-base contacts on %s/%s (%s) but the pair is not reported and neither edge is taken" % (k1, k2, c["n"], c["e1"], c["e2"], lw),
                                None, lw))
        return len(base_pairs), demanded, und


def judge_pairs(ref, base_pairs, out, tag=""):
    """C03: soundness, exclusivity, completeness. Returns (n_reported, n_demanded, n_undecided)."""
    return PairJudge(ref).judge(base_pairs, out, tag)


def judge_stackings(ref, stackings, out, tag=""):
    """C04 two-sided oracle."""
    exp = refann.stacking_reference(ref)
    byorder = {r.key: r for r in ref}
    seen = {}
    und = 0
    for st in stackings:
        k1, k2 = rkey(st.nt1), rkey(st.nt2)
        if k1 not in byorder or k2 not in byorder:
            out.append(viol("stacking:unknown-residue" + tag, "stacking names an unknown residue %s %s" % (k1, k2)))
            continue
        a, b = byorder[k1], byorder[k2]
        if not (skey(k1) < skey(k2)):
            out.append(viol("stacking:order" + tag, "stacking %s-%s does not list the lower residue first" % (k1, k2)))
        pk = (min(a.order, b.order), max(a.order, b.order))
        if pk in seen:
            out.append(viol("stacking:twice" + tag, "stacking between %s and %s reported twice" % (k1, k2)))
        seen[pk] = st
    for pk, e in exp.items():
        if not e["defined"]:
            if pk in seen:
                out.append(viol("stacking:undefined-normal" + tag, "stacking reported for a residue without a base normal"))
            continue
        if e["margin"] < refann.EPS:
            und += 1
            continue
        if e["directed"] and pk not in seen:
            out.append(viol("stacking:missing" + tag, "residues %s and %s satisfy the stacking definition but no stacking is reported" % (ref_by_order(ref, pk[0]).key, ref_by_order(ref, pk[1]).key)))
        if pk in seen and not e["undirected"]:
            out.append(viol("stacking:unjustified" + tag, "stacking %s-%s reported but the definition is not met" % (ref_by_order(ref, pk[0]).key, ref_by_order(ref, pk[1]).key)))
        if pk in seen and e["dot_margin"] > refann.EPS:
            top = seen[pk].topology.value if seen[pk].topology is not None else None
            want = ("upward", "downward") if e["same"] else ("inward", "outward")
            if top not in want:
                out.append(viol("stacking:label" + tag, "stacking labelled %s, normals are %s" % (top, "parallel" if e["same"] else "opposed"), top, want))
    for pk in seen:
        if pk not in exp:
            out.append(viol("stacking:unjustified" + tag, "stacking reported between residues whose centroids are more than 7 A apart"))
    return len(stackings), sum(1 for e in exp.values() if e.get("directed")), und


def ref_by_order(ref, order):
    for r in ref:
        if r.order == order:
            return r
    return None


def judge_wellformed(ref, bi, out, tag=""):
    """C11 invariants on one BaseInteractions."""
    keys = {r.key: r for r in ref}
    for kind, lst in (("basePairs", bi.basePairs), ("stackings", bi.stackings), ("baseRibose", bi.baseRiboseInteractions), ("basePhosphate", bi.basePhosphateInteractions)):
        seen = set()
        prev = None
        for x in lst:
            k1, k2 = rkey(x.nt1), rkey(x.nt2)
            if k1 == k2:
                out.append(viol("wf:%s:self" % kind + tag, "%s joins residue %s with itself" % (kind, k1)))
            if k1 not in keys or k2 not in keys:
                out.append(viol("wf:%s:foreign-residue" % kind + tag, "%s names a residue outside the analysed model: %s %s" % (kind, k1, k2)))
            ident = (k1, k2) + ((x.lw.value,) if kind == "basePairs" else ())
            und = frozenset((k1, k2)) if kind in ("basePairs", "stackings") else (k1, k2)
            if kind == "basePairs":
                und = (und, frozenset((x.lw.value, x.lw.reverse.value)) if False else x.lw.value)
            if ident in seen:
                out.append(viol("wf:%s:repeated" % kind + tag, "%s %s repeated" % (kind, ident)))
            seen.add(ident)
            if kind in ("basePairs", "stackings"):
                if not skey(k1) < skey(k2):
                    out.append(viol("wf:%s:orientation" % kind + tag, "%s %s-%s does not list the lower residue first" % (kind, k1, k2)))
                cur = (skey(k1), skey(k2))
                if prev is not None and cur < prev:
                    out.append(viol("wf:%s:unsorted" % kind + tag, "%s list is not sorted: %s after %s" % (kind, cur, prev)))
                prev = cur
    # Saenger
    from rnapolis.common import LeontisWesthof, Saenger

    for bp in bi.basePairs:
        k1, k2 = rkey(bp.nt1), rkey(bp.nt2)
        if k1 in keys and k2 in keys:
            l1, l2 = keys[k1].letter, keys[k2].letter
            if l1 in LETTERS and l2 in LETTERS:
                want = refann.SAENGER.get((l1 + l2, bp.lw.value))
                got = bp.saenger.value if bp.saenger is not None else None
                if want != got:
                    out.append(viol("wf:saenger" + tag, "pair %s%s %s carries Saenger %s, the table says %s" % (l1, l2, bp.lw.value, got, want), got, want))
                rev = refann.SAENGER.get((l2 + l1, bp.lw.reverse.value))
                if rev != want:
                    raise RuntimeError("harness Saenger table is not reverse-symmetric at %s %s" % (l1 + l2, bp.lw.value))
    # BPh / BR
    for kind, lst, oxy in (("basePhosphate", bi.basePhosphateInteractions, refann.PHOSPHATE_O), ("baseRibose", bi.baseRiboseInteractions, refann.RIBOSE_O)):
        per = {}
        for x in lst:
            k1, k2 = rkey(x.nt1), rkey(x.nt2)
            if k1 not in keys or k2 not in keys or k1 == k2:
                continue
            cls = x.bph if kind == "basePhosphate" else x.br
            c = int(cls.value[0]) if cls is not None else None
            per.setdefault((k1, k2), []).append(c)
            allowed, ncon = refann.implied_classes(keys[k1], keys[k2], oxy)
            if ncon == 0:
                out.append(viol("wf:%s:no-contact" % kind + tag, "%s %s->%s but no base donor atom of the first residue is within 4.0 A of a %s oxygen of the second" % (kind, k1, k2, "phosphate" if kind == "basePhosphate" else "ribose")))
            elif c not in allowed:
                out.append(viol("wf:%s:class" % kind + tag, "%s %s->%s carries class %s, the contacts present imply %s" % (kind, k1, k2, c, sorted(allowed)), c, sorted(allowed)))
            else:
                exact = refann.strict_class(ref, keys[k1], keys[k2], oxy)
                if exact is not None and c != exact:
                    out.append(viol("wf:%s:class-not-merged" % kind + tag, "%s %s->%s carries class %s; the donor atoms in contact (no other partner competes for them) imply exactly %s" % (kind, k1, k2, c, exact), c, exact))
        for k, v in per.items():
            if len(v) > 1:
                out.append(viol("wf:%s:several-classes" % kind + tag, "residue pair %s carries %d %s entries" % (k, len(v), kind)))
