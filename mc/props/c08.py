"""C08 - structure reading preserves atoms, residue identity and the requested model (form S)."""
import itertools
import math
import os

from mc import enumio
from mc.engine import observe, scratch_dir
from mc.props.common2d import viol

ID = "C08"
LEVEL = "exploration"
RULE = (
    "every abstract atom table within d deviations of a base table (2 chains x 2 residues x 3 atoms, one model); deviations: second/third model "
    "sharing all residue identities (far apart / within 0.3 A of model 1), negative / four-character residue numbers, coordinates filling the 8-character PDB fields, insertion code, two residues differing only by "
    "insertion code, altloc A/B with occupancies (0.6,0.4),(0.4,0.6),(0.5,0.5), repeated atom name, two atoms 0.3 A apart with ordered/equal "
    "occupancies, a chain of three such atoms, HETATM group, 4-character/primed names, absent occupancy, label ids different from auth ids, both "
    "mmCIF null markers; each table emitted as PDB and mmCIF by an independent emitter and read with read_3d_structure(model=m) for m in {None} + "
    "every model present; expectation computed from the abstract table; plus every corpus file as written (all models) against its abstract table read by the harness's own tokenizer. non-trivial = table with at least one deviation; distinct = (table, format, "
    "emitter options, requested model)."
)
ASSUMPTIONS = [
    "a table combining absent occupancy with repeated atoms or sub-0.5 A neighbours is executed but not judged (no 'highest-occupancy copy' exists)",
    "on equal occupancies either copy may be kept",
    "order of atoms inside a residue is not part of the property (compared as sets)",
]
_tier = ["quick"]


def worker_init(tier):
    _tier[0] = tier


def _renumber(t):
    for k, a in enumerate(t):
        a["serial"] = k + 1


def d_model(far, n=2):
    def f(t):
        base = [dict(a) for a in t if a["model"] == 1]
        for m in range(2, n + 1):
            if any(a["model"] == m for a in t):
                return False
            for a in base:
                b = dict(a)
                b["model"] = m
                sh = (7.0 if far else 0.3) * (m - 1)
                b["x"] = "%.3f" % (float(a["x"]) + sh)
                t.append(b)
        _renumber(t)
    f.__name__ = "models=%d:%s" % (n, "far" if far else "near")
    return f


def d_res(first, field, value, label):
    def f(t):
        for k in range(first, first + 3):
            t[k][field] = value
    f.__name__ = label
    return f


def d_icode_pair(t):
    # residues 0 and 1 of chain A get the same number and differ only by insertion code
    for k in range(3, 6):
        t[k]["resseq"] = t[0]["resseq"]
        t[k]["icode"] = "A"


def d_same_name(t):
    # residue 1 of chain A gets the name of residue 0: together with d_icode_pair, consecutive residues then differ ONLY by the insertion code
    for k in range(3, 6):
        t[k]["resname"] = t[0]["resname"]


def d_icode_run(t):
    # three consecutive residues with the same name, chain and number: icodes none, A, B (the third is new)
    if any(a["icode"] for a in t[:6]):
        return False
    for k in range(3, 6):
        t[k]["resname"] = t[0]["resname"]
        t[k]["resseq"] = t[0]["resseq"]
        t[k]["icode"] = "A"
    extra = []
    for k in range(3, 6):
        b = dict(t[k])
        b["icode"] = "B"
        b["z"] = "%.3f" % (float(b["z"]) + 11.0)
        extra.append(b)
    t[6:6] = extra
    _renumber(t)


def d_model2_clash(o1, o2):
    """A second model (far from the first) in which two differently named atoms of one residue are 0.3 A apart with occupancies o1/o2, while the
    atoms at the same positions of model 1 keep full occupancy and their distance: the verdict must come from model 2's own occupancies."""
    def f(t):
        if any(a["model"] != 1 for a in t):
            return False
        base = [dict(a) for a in t]
        for a in base:
            b = dict(a)
            b["model"] = 2
            b["x"] = "%.3f" % (float(a["x"]) + 7.0)
            t.append(b)
        n = len(base)
        i, j = n + 9, n + 10
        t[i]["occ"], t[j]["occ"] = o1, o2
        t[j]["x"] = "%.3f" % (float(t[i]["x"]) + 0.3)
        t[j]["y"], t[j]["z"] = t[i]["y"], t[i]["z"]
        _renumber(t)
    f.__name__ = "model2-clash(%s,%s)" % (o1, o2)
    return f


def d_models_interleaved(t):
    """Two models whose rows are not model-major: chain A of model 1, chain A of model 2, chain B of model 1, chain B of model 2
    (mmCIF does not fix the row order of atom_site; the PDB emitter regroups by model, as the format requires)."""
    if any(a["model"] != 1 for a in t):
        return False
    base = [dict(a) for a in t]
    out = []
    for ch in ("A", "B"):
        for m in (1, 2):
            for a in base:
                if a["chain"] != ch:
                    continue
                b = dict(a)
                b["model"] = m
                if m == 2:
                    b["x"] = "%.3f" % (float(a["x"]) + 7.0)
                out.append(b)
    t[:] = out
    _renumber(t)


def d_models_zero_based(t):
    """Two models numbered 0 and 1 (zero-based ensembles, e.g. from simulations): the first model of the file is model 0."""
    if any(a["model"] != 1 for a in t):
        return False
    base = [dict(a) for a in t]
    for a in t:
        a["model"] = 0
    for a in base:
        b = dict(a)
        b["model"] = 1
        b["x"] = "%.3f" % (float(a["x"]) + 7.0)
        t.append(b)
    _renumber(t)


def d_models_out_of_order(t):
    """Two models written as model 2 first, then model 1: 'the first' model is the one written first."""
    if any(a["model"] != 1 for a in t):
        return False
    base = [dict(a) for a in t]
    for a in t:
        a["model"] = 2
    for a in base:
        b = dict(a)
        b["model"] = 1
        b["x"] = "%.3f" % (float(a["x"]) + 7.0)
        t.append(b)
    _renumber(t)


def d_boundary_twin(t):
    """The first residue of chain B gets the name and the number of the last residue of chain A: consecutive records that differ in the chain only."""
    ref = t[5]
    for k in range(6, 9):
        t[k]["resname"] = ref["resname"]
        t[k]["resseq"] = ref["resseq"]
        t[k]["icode"] = ref["icode"]


def d_altloc(o1, o2):
    def f(t):
        a = t[1]
        if a["altloc"]:
            return False
        a["altloc"] = "A"
        a["occ"] = o1
        b = dict(a)
        b["altloc"] = "B"
        b["occ"] = o2
        b["x"] = "%.3f" % (float(a["x"]) + 0.8)
        t.insert(2, b)
        _renumber(t)
    f.__name__ = "altloc(%s,%s)" % (o1, o2)
    return f


def d_repeat(o1, o2):
    def f(t):
        a = t[7]
        a["occ"] = o1
        b = dict(a)
        b["occ"] = o2
        b["y"] = "%.3f" % (float(a["y"]) + 0.9)
        t.insert(8, b)
        _renumber(t)
    f.__name__ = "repeat(%s,%s)" % (o1, o2)
    return f


def d_close(o1, o2, same_residue=True):
    def f(t):
        i, j = (9, 10) if same_residue else (5, 6)
        t[i]["occ"] = o1
        t[j]["occ"] = o2
        t[j]["x"] = "%.3f" % (float(t[i]["x"]) + 0.3)
        t[j]["y"] = t[i]["y"]
        t[j]["z"] = t[i]["z"]
    f.__name__ = "close(%s,%s,%s)" % (o1, o2, "same-res" if same_residue else "other-chain")
    return f


def d_chain3(occs):
    def f(t):
        for n, k in enumerate((9, 10, 11)):
            t[k]["occ"] = occs[n]
            t[k]["x"] = "%.3f" % (float(t[9]["x"]) + 0.3 * n)
            t[k]["y"] = t[9]["y"]
            t[k]["z"] = t[9]["z"]
    f.__name__ = "chain3%s" % (occs,)
    return f


def d_hetatm(t):
    for k in range(9, 12):
        t[k]["record"] = "HETATM"
        t[k]["resname"] = "HOH"


def d_names(t):
    t[1]["name"] = "H5''"
    t[1]["element"] = "H"
    t[4]["name"] = "HO5'"
    t[4]["element"] = "H"
    t[7]["name"] = "1H5'"
    t[7]["element"] = "H"


def d_legacy_names(t):
    """Pre-2008 PDB atom names: read as written (O5* stays O5*, O1P stays O1P)."""
    for a in t:
        a["name"] = a["name"].replace("'", "*")
    t[6]["name"] = "O1P"
    t[6]["element"] = "O"
    t[9]["name"] = "C5M"
    t[9]["element"] = "C"


def d_sodium(t):
    """A sodium ion appended to the last chain: component, atom and element are all spelled NA (a name, not a missing-value marker)."""
    last = t[-1]
    t.append(enumio.atom(max(a["serial"] for a in t) + 1, "NA", "NA", last["chain"], 301, "%.3f" % (float(last["x"]) + 9.0), "%.3f" % (float(last["y"]) + 9.0), last["z"], element="NA", record="HETATM", model=last["model"]))


def d_noocc(t):
    t[4]["occ"] = None


def d_wide_coords(t):
    for a in t:
        a["x"] = "%.3f" % (float(a["x"]) - 300.0)
        a["y"] = "%.3f" % (float(a["y"]) + 1200.0)
        a["z"] = "%.3f" % (float(a["z"]) - 100.5)


def deviations():
    d = [d_model(True), d_model(False), d_model(True, 3), d_res(0, "resseq", -3, "negative-number"), d_res(3, "icode", "B", "icode"), d_icode_pair]
    d += [d_res(6, "resseq", 1234, "four-digit-number"), d_res(9, "resseq", -250, "negative-three-digit-number"), d_wide_coords]
    d += [d_altloc("0.60", "0.40"), d_altloc("0.40", "0.60"), d_altloc("0.50", "0.50")]
    d += [d_repeat("1.00", "0.50"), d_repeat("0.50", "1.00")]
    d += [d_close("1.00", "0.50"), d_close("0.50", "1.00"), d_close("0.50", "0.50"), d_close("0.50", "1.00", False), d_close("1.00", "1.00", False)]
    d += [d_chain3(("0.50", "1.00", "0.50")), d_chain3(("1.00", "0.50", "0.20")), d_chain3(("0.20", "0.50", "1.00"))]
    d += [d_hetatm, d_names, d_noocc]
    # added after the second wave of seeded changes (C08-c, C08-d): appended so that earlier indices (replay files) stay valid
    d += [d_same_name, d_icode_run, d_model2_clash("0.30", "0.70"), d_model2_clash("0.70", "0.30")]
    d += [d_models_interleaved]
    d += [d_models_zero_based, d_models_out_of_order, d_boundary_twin]
    # occupancies that differ in the second decimal only (after seed C08-l)
    d += [d_altloc("0.33", "0.34"), d_repeat("0.45", "0.48"), d_close("0.48", "0.45")]
    d += [d_legacy_names, d_sodium]
    # a written occupancy of 0.00 is a number, not a missing value: the zero-occupancy copy loses against any other copy
    d += [d_altloc("0.00", "1.00"), d_repeat("0.00", "0.50"), d_close("0.00", "0.60"), d_close("0.70", "0.00")]
    return d


DEVS = deviations()
REDUCED = [k for k, f in enumerate(DEVS) if f.__name__ in ("models=2:far", "models=2:near", "icode", "d_icode_pair", "altloc(0.40,0.60)", "repeat(0.50,1.00)",
                                                          "close(0.50,1.00,same-res)", "chain3('0.50', '1.00', '0.50')", "d_hetatm", "d_noocc")]
CIF_OPTS = [dict(), dict(null_icode="."), dict(null_alt="?"), dict(null_occ="."), dict(label_differs=True), dict(label_seq_null=".", label_differs=True),
            # a file without the optional items auth_comp_id / auth_atom_id, whose hetero groups have no label_seq_id (as 8btk_B7.cif)
            dict(label_seq_null=".", label_differs=True, omit_items=("auth_comp_id", "auth_atom_id"))]


def BOUNDS(tier):
    return dict(deviation_list=len(DEVS), d="2 on the full list" if tier == "quick" else "2 on the full list, 3 on a reduced list of %d" % len(REDUCED),
                formats=["PDB", "mmCIF x %d emitter options" % len(CIF_OPTS)], requested_models="None + every model present",
                corpus_files=len(CORPUS_Q if tier == "quick" else CORPUS_T))


def cases(tier):
    combos = [()] + [(k,) for k in range(len(DEVS))]
    combos += [c for c in itertools.combinations(range(len(DEVS)), 2)]
    if tier != "quick":
        combos += [c for c in itertools.combinations(REDUCED, 3)]
    yield dict(devs=[], fmt="mmCIF", opt=0, big_header=True)
    yield dict(devs=[0], fmt="mmCIF", opt=1, big_header=True)
    seen = set()
    for c in combos:
        if c in seen:
            continue
        seen.add(c)
        yield dict(devs=list(c), fmt="PDB")
        for k in range(len(CIF_OPTS)):
            yield dict(devs=list(c), fmt="mmCIF", opt=k)
        if len(c) <= 1:
            # the same atoms in other legal presentations of the text (short lines, CRLF, other records in between; reversed / quoted / extra columns)
            for v in enumio.PDB_VARIANTS:
                yield dict(devs=list(c), fmt="PDB", variant=v)
            for v in enumio.CIF_VARIANTS:
                yield dict(devs=list(c), fmt="mmCIF", opt=0, variant=v)


CORPUS_Q = ["1HMH_1_E.cif", "6INQ.cif", "1DFU_1_M-N.cif", "4WTI_1_T-P.cif", "1E7K_1_C.cif", "184D.cif", "1A1T_1_B.cif", "4gqj-assembly1.cif", "6FC9.cif", "1JJP.cif", "1ATO.pdb", "6RS3.cif"]
CORPUS_T = CORPUS_Q + ["1E7K_1_C_modified.cif", "1ehz-assembly-1.cif", "8btk_B7.cif", "4qln.cif", "4qln.pdb", "2HY9.cif", "488d.pdb", "q-ugg-5k-salt_400-500ns_frame1065.pdb", "1a9n.cif", "6g90_1.cif"]


def families(tier):
    return [("tables", lambda: cases(tier), 1), ("corpus", lambda: (dict(file=f) for f in (CORPUS_Q if tier == "quick" else CORPUS_T)), 1)]


def dist(a, b):
    return math.sqrt(sum((float(a[f]) - float(b[f])) ** 2 for f in "xyz"))


def run_corpus(case):
    """The real corpus file as written, against its abstract table read by the harness's own tokenizer / column reader."""
    from rnapolis.parser import read_3d_structure

    from mc import corpus

    t = corpus.table(case["file"], first_model_only=False)
    models = []
    for a in t:
        if a["model"] not in models:
            models.append(a["model"])
    out = []
    outcome = []
    path = os.path.join(corpus.TESTS, case["file"])
    for req in [None] + (models if len(models) > 1 else []):
        with open(path) as f:
            r = observe(read_3d_structure, f, req)
        m = models[0] if req is None else req
        if r[0] == "exc":
            out.append(viol("corpus-read-raises:" + r[1], "read_3d_structure(%s, model=%r) raised %s" % (case["file"], req, r[2])))
            continue
        outcome.append(judge(t, m, r[1], "corpus", out))
    u = {}
    for v in out:
        u.setdefault(v["signature"], v)
    return dict(nontrivial=True, outcome="corpus:" + ",".join(sorted(set(outcome))), violations=list(u.values()), undecided="unjudged" in outcome)


def run_case(case):
    from rnapolis.parser import read_3d_structure

    if "file" in case:
        return run_corpus(case)
    t = enumio.apply_deviations([DEVS[k] for k in case["devs"]])
    if t is None:
        return dict(nontrivial=False, outcome="inapplicable", violations=[])
    if case["fmt"] == "PDB":
        if any(a["occ"] is None for a in t):
            return dict(nontrivial=False, outcome="pdb-without-occupancy-skipped", violations=[])
        text = enumio.emit_pdb(t)
        if case.get("variant"):
            text = enumio.pdb_variant(text, case["variant"])
        ext = ".pdb"
    elif case.get("big_header"):
        # more than a megabyte of other categories in front of the atom_site loop (as in ribosome-size entries)
        V = lambda x: ("v", str(x))
        rows = [(V(k + 1), V("Structure model"), V("repository"), V("Initial release of coordinates and structure factors number %06d" % k)) for k in range(14000)]
        text = enumio.emit_cif(t, extra_categories={"pdbx_audit_revision_details": (["ordinal", "data_content_type", "provider", "description"], rows)}, **CIF_OPTS[case["opt"]])
        assert text.index("_atom_site.") > (1 << 20), text.index("_atom_site.")
        ext = ".cif"
    else:
        text = enumio.emit_cif(t, **CIF_OPTS[case["opt"]])
        if case.get("variant"):
            text = enumio.cif_variant(text, case["variant"])
        ext = ".cif"
    path = os.path.join(scratch_dir(), "c08" + ext)
    with open(path, "w") as f:
        f.write(text)
    models = []
    for a in t:
        if a["model"] not in models:
            models.append(a["model"])
    out = []
    unjudged = False
    outcome = []
    for req in [None] + models:
        with open(path) as f:
            r = observe(read_3d_structure, f, req)
        m = models[0] if req is None else req
        tag = case["fmt"]
        if r[0] == "exc" and _unjudged([a for a in t if a["model"] == m]):
            unjudged = True
            outcome.append("unjudged")
            continue
        if r[0] == "exc":
            noocc = any(a["occ"] is None for a in t)
            kind = "absent-occupancy" if noocc else "plain"
            out.append(viol("read-raises:%s:%s:%s" % (case["fmt"], kind, r[1]), "read_3d_structure(model=%r) raised %s" % (req, r[2]), r[2], "a structure"))
            continue
        res = judge(t, m, r[1], tag, out)
        if res == "unjudged":
            unjudged = True
        outcome.append(res)
    u = {}
    for v in out:
        u.setdefault(v["signature"], v)
    return dict(nontrivial=bool(case["devs"]), outcome=",".join(sorted(set(outcome))) or "exc", violations=list(u.values()), undecided=unjudged)


def _unjudged(atoms):
    keys = [(a["chain"], a["resseq"], a["icode"], a["resname"], a["name"]) for a in atoms]
    noocc = any(a["occ"] is None for a in atoms)
    dup = len(set(keys)) != len(keys)
    close = any(dist(a, b) < 0.5 for a, b in itertools.combinations(atoms, 2))
    return noocc and (dup or close)


def judge(t, m, structure, tag, out):
    atoms = [a for a in t if a["model"] == m]
    # observed
    obs = []
    for res in structure.residues:
        for a in res.atoms:
            obs.append((((res.chain or "").strip(), res.number, res.icode, res.name), a.name, ("%.3f" % a.x, "%.3f" % a.y, "%.3f" % a.z), a.model, res.model))  # a blank chain id is blank, however many blanks
    # model purity
    wrong = [o for o in obs if o[3] != m or o[4] != m]
    if wrong:
        out.append(viol("wrong-model:" + tag, "asked for model %d, got atoms of model(s) %s" % (m, sorted({o[3] for o in wrong})), None, None))
        return "wrong-model"
    by_key = {}
    for a in atoms:
        key = (((a["chain"] or "").strip(), a["resseq"], a["icode"], a["resname"]), a["name"])
        by_key.setdefault(key, []).append(a)
    if _unjudged(atoms):
        return "unjudged"
    seen = {}
    for ident, name, xyz, _, _ in obs:
        key = (ident, name)
        if key not in by_key:
            near = [k for k in by_key if k[1] == name and k[0][:2] == ident[:2]]
            what = "identity" if near else "atom"
            out.append(viol("invented-%s:%s" % (what, tag), "atom %s of residue %s is not in model %d of the table (closest identity %s)" % (name, ident, m, near[:1]), None, None))
            return "invented"
        if key in seen:
            out.append(viol("atom-twice:" + tag, "atom %s of residue %s returned twice" % (name, ident), None, None))
            return "twice"
        copies = by_key[key]
        mx = max(float(c["occ"]) if c["occ"] is not None else -1.0 for c in copies)
        adm = [c for c in copies if (float(c["occ"]) if c["occ"] is not None else -1.0) == mx]
        hit = [c for c in adm if (enumio.dec(c["x"], 3), enumio.dec(c["y"], 3), enumio.dec(c["z"], 3)) == xyz]
        if not hit:
            anyc = [c for c in copies if (enumio.dec(c["x"], 3), enumio.dec(c["y"], 3), enumio.dec(c["z"], 3)) == xyz]
            if anyc:
                out.append(viol("lower-occupancy-copy-kept:" + tag, "atom %s of %s: kept the copy with occupancy %s, highest is %.2f" % (name, ident, anyc[0]["occ"], mx), None, None))
            else:
                out.append(viol("coordinates-differ:" + tag, "atom %s of %s has coordinates %s not written for it" % (name, ident, xyz), None, None))
            return "wrong-copy"
        seen[key] = hit[0]
    kept = list(seen.values())
    for a, b in itertools.combinations(kept, 2):
        if a["occ"] is not None and b["occ"] is not None and dist(a, b) < 0.5 - 1e-9:
            out.append(viol("both-clashing-kept:" + tag, "atoms %s and %s are %.2f A apart and both kept" % (a["name"], b["name"], dist(a, b)), None, None))
            return "both-kept"
    for key, copies in by_key.items():
        if key in seen:
            continue
        ok = False
        for c in copies:
            for other in atoms:
                if other is c or (other["chain"], other["resseq"], other["icode"], other["resname"], other["name"]) == (c["chain"], c["resseq"], c["icode"], c["resname"], c["name"]):
                    continue
                if dist(c, other) < 0.5 and other["occ"] is not None and c["occ"] is not None and float(other["occ"]) >= float(c["occ"]):
                    ok = True
        if not ok:
            out.append(viol("atom-lost:" + tag, "atom %s of residue %s (model %d) is missing and has no neighbour within 0.5 A of at least its occupancy" % (key[1], key[0], m), None, None))
            return "lost"
    order_want = []
    for a in atoms:
        ident = ((a["chain"] or "").strip(), a["resseq"], a["icode"], a["resname"])
        if ident not in order_want and any(k[0] == ident for k in seen):
            order_want.append(ident)
    order_got = []
    for ident, *_ in obs:
        if not order_got or order_got[-1] != ident:
            order_got.append(ident)
    if order_got != order_want:
        out.append(viol("residue-order:" + tag, "residues are not grouped in file order", order_got, order_want))
        return "order"
    return "ok"
