"""C20 - mmCIF item editing changes only its target; CLI output equals library result (form S)."""
import contextlib
import copy
import io
import itertools
import os
import sys

from mc import cif
from mc.engine import observe, scratch_dir
from mc.props.common2d import viol

ID = "C20"
LEVEL = "exploration"
RULE = (
    "every generated mmCIF document within d deviations of a base document (value kinds: plain, ?, ., multi-word, containing ', containing \", "
    "multi-line, number-like; second data block; 1-3 rows; single item; extra category; key-value vs loop style; repeated/distinct source values) "
    "plus corpus mmCIF files; for each document every (category, from, to) with from/to in items + {absent, new} and category in categories + "
    "{absent}, and every (category, item, alphabet) for replace (alphabets: disjoint from the values, of exactly the needed length, too short, and colliding with the column's own values); the output is parsed by the harness's own CIF tokenizer and compared with the "
    "input: other categories/blocks/items/rows/order equal, target == source (copy) or image of the returned injective first-seen mapping "
    "(replace), untouched text when category/source is absent; transformer.main must write exactly the library's return value. "
    "non-trivial = the edit changes at least one value or adds an item; distinct = (document, operation)."
)
ASSUMPTIONS = [
    "position of the edited category inside the file is not part of the property (the writer moves it to the end)",
    "replace alphabets shorter than the number of distinct values are executed but not judged (no injective mapping exists)",
    "the harness's CIF tokenizer (mc/cif.py) is trusted; it is cross-checked against the mmcif reader on every generated document",
]
_tier = ["quick"]


def worker_init(tier):
    _tier[0] = tier


def V(s):
    return ["v", s]


N1 = ["n", "?"]
N2 = ["n", "."]
SPECIAL = [N1, N2, V("two words"), V("it's"), V('say"hi'), V("multi\nline text"), V("12.5"), V("A")]


def base_doc():
    return [
        ["b1", [
            ["entry", ["id"], [[V("X1")]]],
            ["site", ["id", "asym", "auth", "note"], [[V("1"), V("A"), V("X"), V("n1")], [V("2"), V("B"), V("Y"), V("n2")], [V("3"), V("A"), V("X"), V("n3")]]],
            ["misc", ["k1", "k2"], [[V("v1"), V("v2")]]],
        ]]
    ]


def _cat(doc, name, block=0):
    for c in doc[block][1]:
        if c[0] == name:
            return c
    return None


def deviations(full):
    devs = []

    def setcell(cat, r, col, val):
        def f(doc):
            c = _cat(doc, cat)
            if c is None or r >= len(c[2]) or col not in c[1]:
                return False
            c[2][r][c[1].index(col)] = list(val)
            return True
        f.__name__ = "set %s[%d].%s=%r" % (cat, r, col, val[1])
        return f

    cells = [("site", 0, "asym"), ("site", 1, "auth"), ("site", 2, "note"), ("misc", 0, "k1")]
    if full:
        cells += [("site", 1, "asym"), ("site", 0, "id"), ("entry", 0, "id")]
    for cat, r, col in cells:
        for val in SPECIAL:
            devs.append(setcell(cat, r, col, val))

    def second_block(doc):
        if len(doc) > 1:
            return False
        doc.append(["b2", [["site", ["id", "asym"], [[V("9"), V("Z")], [V("8"), V("W")]]], ["other", ["q"], [[V("q1")]]]]])
        return True

    def rows(n):
        def f(doc):
            c = _cat(doc, "site")
            if len(c[2]) <= n:
                return False
            del c[2][n:]
            return True
        f.__name__ = "site rows=%d" % n
        return f

    def single_item(doc):
        c = _cat(doc, "site")
        if len(c[1]) == 1:
            return False
        c[2][:] = [[r[1]] for r in c[2]]
        c[1][:] = ["asym"]
        return True

    def extra_cat(doc):
        if _cat(doc, "extra"):
            return False
        doc[0][1].append(["extra", ["e1", "e2"], [[V("p"), V("q")], [V("r"), N1]]])
        return True

    def site_first(doc):
        cats = doc[0][1]
        i = [c[0] for c in cats].index("site")
        if i == 0:
            return False
        cats.insert(0, cats.pop(i))
        return True

    def misc_loop(doc):
        c = _cat(doc, "misc")
        if len(c) > 3:
            return False
        c.append("loop")
        return True

    def all_distinct(doc):
        c = _cat(doc, "site")
        if "asym" not in c[1] or len(c[2]) < 3:
            return False
        c[2][2][c[1].index("asym")] = V("C")
        return True

    def all_same(doc):
        c = _cat(doc, "site")
        if "asym" not in c[1]:
            return False
        for r in c[2]:
            r[c[1].index("asym")] = V("A")
        return True

    def misc_three(doc):
        c = _cat(doc, "misc")
        if len(c[1]) > 2:
            return False
        c[1].append("k3")
        c[2][0].append(V("v3"))
        return True

    devs += [second_block, rows(1), rows(2), single_item, extra_cat, site_first, misc_loop, all_distinct, all_same, misc_three]
    return devs


def docs(tier):
    q = tier == "quick"
    devs = deviations(True)
    reduced = [d for d in devs if not d.__name__.startswith("set ") or d.__name__.startswith(("set site[1].auth", "set misc"))]
    seen = set()

    def emit(doc, names):
        key = repr(doc)
        if key in seen:
            return None
        seen.add(key)
        return dict(doc=doc, devs=names)

    r = emit(base_doc(), [])
    yield r
    for d in devs:
        doc = base_doc()
        if d(doc):
            r = emit(doc, [d.__name__])
            if r:
                yield r
    pool = devs
    for d1, d2 in itertools.combinations(pool, 2):
        doc = base_doc()
        if d1(doc) and d2(doc):
            r = emit(doc, [d1.__name__, d2.__name__])
            if r:
                yield r
    if not q:
        for d1, d2, d3 in itertools.combinations(reduced, 3):
            doc = base_doc()
            if d1(doc) and d2(doc) and d3(doc):
                r = emit(doc, [d1.__name__, d2.__name__, d3.__name__])
                if r:
                    yield r


def ops_for(doc):
    cats = [(c[0], c[1]) for c in doc[0][1]]
    for cat, items in cats:
        if cat == "entry":
            continue
        for a in items + ["absent_item"]:
            for b in items + ["new_item"]:
                yield dict(op="copy", category=cat, src=a, dst=b)
        for a in items + ["absent_item"]:
            for alpha in ("PQRSTUVW", "exact", "short", "colliding"):
                yield dict(op="replace", category=cat, column=a, alphabet=alpha)
    yield dict(op="copy", category="absent_cat", src="id", dst="asym")
    yield dict(op="replace", category="absent_cat", column="id", alphabet="PQRSTUVW")


# mmCIF names are case-sensitive and often mixed-case (Cartn_x, pdbx_PDB_ins_code, database_PDB_rev): the same documents and operations with such names
CASEMAP = {"site": "Site_PDB", "misc": "misc_Info", "extra": "Extra", "other": "other_PDB", "asym": "Asym_ID", "auth": "auth_Asym", "note": "Note", "k1": "K1", "k2": "k_Two",
           "absent_item": "Absent_Item", "new_item": "New_Item", "absent_cat": "Absent_Cat"}


def cases(tier):
    for d in docs(tier):
        for k, op in enumerate(ops_for(d["doc"])):
            yield dict(doc=d["doc"], devs=d["devs"], cli=(k % 7 == 0), **op)
            if k % 5 == 2 and len(d["devs"]) <= 1:
                yield dict(doc=d["doc"], devs=d["devs"], cli=True, mixed_case=True, **op)


CORPUS = ["1A1T_1_B.cif", "1DFU_1_M-N.cif", "1HMH_1_E.cif", "4WTI_1_T-P.cif", "184D.cif", "6FC9.cif"]


def corpus_cases(tier):
    names = CORPUS if tier == "quick" else CORPUS + ["1JJP.cif", "1E7K_1_C.cif", "2HY9.cif", "6RS3.cif", "6INQ.cif", "8btk_B7.cif", "4qln.cif"]
    for name in names:
        yield dict(file=name, op="copy", category="atom_site", src="label_asym_id", dst="auth_asym_id", cli=True)
        yield dict(file=name, op="copy", category="atom_site", src="auth_seq_id", dst="new_item", cli=False)
        yield dict(file=name, op="replace", category="atom_site", column="auth_asym_id", alphabet="PQRSTUVWXYZabcdefghijklmnopqrstuvwxyz", cli=True)
        yield dict(file=name, op="replace", category="atom_site", column="label_comp_id", alphabet="default", cli=False)
        yield dict(file=name, op="copy", category="nope", src="a", dst="b", cli=False)
        yield dict(file=name, op="copy", category="atom_site", src="pdbx_PDB_model_num", dst="pdbx_PDB_ins_code", cli=True)
        yield dict(file=name, op="replace", category="atom_site", column="pdbx_PDB_model_num", alphabet="PQRSTUVWXYZabcdefghijklmnopqrstuvwxyz", cli=True)


def families(tier):
    return [("generated", lambda: cases(tier), 1), ("corpus", lambda: corpus_cases(tier), 1)]


def BOUNDS(tier):
    q = tier == "quick"
    return dict(deviations="d<=2 on the full list" if q else "d<=2 on the full list, d<=3 on the reduced list",
                rows="1..3", items="1..4", categories="2..4", blocks="1..2", corpus_files=len(CORPUS) if q else len(CORPUS) + 7)


def to_model(doc):
    blocks = []
    style = {}
    for name, cats in doc:
        d = {}
        for c in cats:
            d[c[0]] = (list(c[1]), [tuple(tuple(v) for v in r) for r in c[2]])
            if len(c) > 3:
                style[c[0]] = c[3]
        blocks.append((name, d))
    return blocks, style


def as_map(block):
    return {cat: (list(items), [tuple(r) for r in rows]) for cat, (items, rows) in block.items()}


def run_cli(argv):
    from rnapolis import transformer

    old = sys.argv
    sys.argv = ["transformer"] + argv
    try:
        with contextlib.redirect_stdout(io.StringIO()):
            transformer.main()
    finally:
        sys.argv = old


def run_case(case):
    from rnapolis import transformer

    out = []
    if "file" in case:
        with open(os.path.join("/repo/tests", case["file"])) as f:
            text = f.read()
        try:
            inp = cif.parse(text)
        except cif.CifError as e:
            return dict(nontrivial=False, outcome="corpus-unparsable-by-harness:%s" % e, violations=[])
    else:
        model, style = to_model(case["doc"])
        if case.get("mixed_case"):
            cm = lambda x: CASEMAP.get(x, x)
            model = [(bn, {cm(cat): ([cm(i) for i in items], rows) for cat, (items, rows) in b.items()}) for bn, b in model]
            style = {cm(k): v for k, v in style.items()}
            case = dict(case)
            for fld in ("category", "src", "dst", "column"):
                if fld in case:
                    case[fld] = cm(case[fld])
        text = cif.emit(model, style)
        inp = cif.parse(text)
        if [(n, as_map(b)) for n, b in inp] != [(n, as_map(b)) for n, b in model]:
            raise RuntimeError("harness: emitter/tokenizer disagree on %r" % text)
    cat = case["category"]
    b0 = inp[0][1]
    present = cat in b0
    items = b0[cat][0] if present else []
    rows = b0[cat][1] if present else []
    op = case["op"]
    judged = True
    if op == "copy":
        r = observe(transformer.copy_from_to, text, cat, case["src"], case["dst"])
        tag = "copy"
    else:
        col = case["column"]
        distinct = []
        if present and col in items:
            for row in rows:
                v = row[items.index(col)]
                if v not in distinct:
                    distinct.append(v)
        alpha = case["alphabet"]
        if alpha == "colliding":
            # substitution symbols that are themselves values of the column, in an order that maps a value onto another value seen later
            singles = [v[1] for v in distinct if v[0] == "v" and len(v[1]) == 1]
            alpha = "".join(reversed(singles)) + "".join(c for c in "ABXY12PQRS" if c not in singles)
        if alpha == "exact":
            alpha = "PQRSTUVWXYZ"[: max(len(distinct), 1)]
        elif alpha == "short":
            alpha = "PQRSTUVWXYZ"[: max(len(distinct) - 1, 0)]
            judged = len(distinct) == 0 or not (present and col in items)
            if alpha == "":
                alpha = "P" if judged else ""
        if alpha == "default":
            import string

            alpha = "".join([c for c in string.printable if c not in string.whitespace])
            r = observe(transformer.replace_value, text, cat, col)
        else:
            r = observe(transformer.replace_value, text, cat, col, alpha)
        tag = "replace"
    if not judged:
        return dict(nontrivial=False, outcome="%s:unjudged-short-alphabet:%s" % (tag, r[0]), violations=[])
    if r[0] == "exc":
        out.append(viol("%s:%s" % (tag, r[1]), "%s raised %s" % (tag, r[2]), r[2], "returns"))
        return dict(nontrivial=True, outcome=tag + ":exc", violations=out)
    if op == "copy":
        res_text, mapping = r[1], None
        src_ok = present and case["src"] in items
    else:
        if not (isinstance(r[1], tuple) and len(r[1]) == 2):
            out.append(viol("replace:return-shape", "replace_value did not return (text, mapping)", repr(r[1])[:200], None))
            return dict(nontrivial=True, outcome="replace:shape", violations=out)
        res_text, mapping = r[1]
        src_ok = present and case["column"] in items
    changed = False
    if not src_ok:
        if res_text != text:
            out.append(viol(tag + ":absent-not-untouched", "category or source item absent but the returned text differs from the input", res_text[:300], "input text"))
        if mapping not in (None, {}):
            out.append(viol(tag + ":absent-mapping", "absent category/item but a mapping was returned", mapping, {}))
        outcome = tag + ":absent"
    else:
        try:
            res = cif.parse(res_text)
        except cif.CifError as e:
            out.append(viol(tag + ":output-unparsable", "output is not parsable mmCIF: %s" % e, res_text[:400], None))
            return dict(nontrivial=True, outcome=tag + ":unparsable", violations=out)
        if [n for n, _ in res] != [n for n, _ in inp]:
            out.append(viol(tag + ":blocks", "data blocks differ", [n for n, _ in res], [n for n, _ in inp]))
        else:
            for bi in range(len(inp)):
                a, b = as_map(inp[bi][1]), as_map(res[bi][1])
                if bi == 0:
                    a.pop(cat, None)
                    tgt = b.pop(cat, None)
                if a != b:
                    diff = sorted(set(a) ^ set(b)) or [c for c in a if a[c] != b[c]]
                    # one specific difference gets a signature of its own: a value written as the empty string '' comes back as the null marker '.'
                    def _only_empty_to_dot(ca, cb):
                        if ca[0] != cb[0] or len(ca[1]) != len(cb[1]):
                            return False
                        for ra, rb in zip(ca[1], cb[1]):
                            if len(ra) != len(rb):
                                return False
                            for va, vb in zip(ra, rb):
                                if va != vb and not (va == ("v", "") and vb[0] == "n" and vb[1] == "."):
                                    return False
                        return True

                    if set(a) == set(b) and all(a[c] == b[c] or _only_empty_to_dot(a[c], b[c]) for c in a):
                        out.append(viol(tag + ":other-categories:empty-string-becomes-dot", "a value written as the empty string '' in another category (block %d: %s) comes back as the null marker '.'" % (bi, diff[:3]), str(b)[:300], str(a)[:300]))
                    else:
                        out.append(viol(tag + ":other-categories", "another category changed (block %d): %s" % (bi, diff[:3]), str(b)[:300], str(a)[:300]))
            if tgt is None:
                out.append(viol(tag + ":target-category-lost", "edited category missing from output", None, cat))
            else:
                titems, trows = tgt
                if op == "copy":
                    dst = case["dst"]
                    exp_items = items + ([dst] if dst not in items else [])
                    si = items.index(case["src"])
                    exp_rows = []
                    for row in rows:
                        row = list(row)
                        if dst in items:
                            row[items.index(dst)] = row[si]
                        else:
                            row.append(row[si])
                        exp_rows.append(tuple(row))
                    changed = exp_rows != [tuple(r) for r in rows]
                else:
                    ci = items.index(case["column"])
                    exp_map = {}
                    for row in rows:
                        if row[ci] not in exp_map:
                            exp_map[row[ci]] = alpha[len(exp_map)]
                    exp_items = items
                    exp_rows = [tuple(("v", exp_map[v]) if k == ci else v for k, v in enumerate(row)) for row in rows]
                    changed = True
                    got_map = {k: v for k, v in mapping.items()}
                    want_map = {v[1]: img for v, img in exp_map.items()}
                    if got_map != want_map or list(mapping.values()) != list(want_map.values()):
                        out.append(viol("replace:mapping", "returned mapping is not the first-seen injective mapping", mapping, want_map))
                if titems != exp_items:
                    out.append(viol(tag + ":items", "item list of the edited category differs", titems, exp_items))
                elif trows != exp_rows:
                    bad_other = any(tuple(v for k, v in enumerate(r1) if titems[k] not in (case.get("dst"), case.get("column"))) !=
                                    tuple(v for k, v in enumerate(r2) if titems[k] not in (case.get("dst"), case.get("column")))
                                    for r1, r2 in zip(trows, exp_rows)) or len(trows) != len(exp_rows)
                    out.append(viol(tag + (":other-items-or-rows" if bad_other else ":target-values"), "rows of the edited category differ", trows[:4], exp_rows[:4]))
        outcome = tag + ":edited"
    if case.get("cli"):
        sd = scratch_dir()
        pin, pout = os.path.join(sd, "in.cif"), os.path.join(sd, "out.cif")
        with open(pin, "w") as f:
            f.write(text)
        if os.path.exists(pout):
            os.remove(pout)
        if op == "copy":
            argv = [pin, pout, "--category", cat, "--copy-from", case["src"], "--copy-to", case["dst"]]
        else:
            argv = [pin, pout, "--category", cat, "--replace", case["column"], "--values", alpha]
        rc = observe(run_cli, argv)
        if rc[0] == "exc":
            out.append(viol("cli-%s:%s" % (tag, rc[1]), "transformer.main raised %s" % rc[2], rc[2], "writes the library result"))
        else:
            got = open(pout).read() if os.path.exists(pout) else None
            if got != res_text:
                what = "input-path" if got is not None and got.strip() == pin else "other"
                out.append(viol("cli-%s:differs:%s" % (tag, what), "transformer.main wrote something else than the library returns for the file's content",
                                (got or "<no file>")[:200], res_text[:200]))
            if got == res_text and (len(text) + len(cat)) % 3 == 0:
                # (every third document, to keep the quick tier short) the same request with the OUTPUT path equal to the INPUT path (editing a file in place), and into an output file that already exists
                # and holds a longer text: the file must end up holding exactly the library's result
                argv_in = [pin, pin] + argv[2:]
                rci = observe(run_cli, argv_in)
                goti = open(pin).read() if rci[0] == "ok" and os.path.exists(pin) else None
                if goti != res_text:
                    out.append(viol("cli-%s:differs:in-place" % tag, "transformer.main with the output path equal to the input path left something else than the library's result in the file",
                                    repr((goti if goti is not None else "<no file / raised>")[:120]), repr(res_text[:120])))
                with open(pin, "w") as f:
                    f.write(text)
                with open(pout, "w") as f:
                    f.write(res_text + "\n# left over from an earlier, longer output\n" * 3)
                rco = observe(run_cli, argv)
                goto = open(pout).read() if rco[0] == "ok" and os.path.exists(pout) else None
                if goto != res_text:
                    out.append(viol("cli-%s:differs:existing-output" % tag, "transformer.main writing over an existing, longer output file left something else than the library's result", repr((goto or "<no file>")[-120:]), repr(res_text[-120:])))
            if got == res_text and res_text == text:
                # nothing was edited (absent category / item): the same request on the same document with another END OF FILE - blank lines, trailing
                # blanks, no final newline - must again write exactly what the library returns for that content
                for tname, tail in (("blank-lines", "\n\n\n"), ("trailing-blanks", "   \n"), ("no-final-newline", "")):
                    t2 = text.rstrip("\n") + tail
                    lib2 = observe(transformer.copy_from_to, t2, cat, case["src"], case["dst"]) if op == "copy" else observe(transformer.replace_value, t2, cat, case["column"], alpha)
                    if lib2[0] == "exc":
                        continue
                    want2 = lib2[1] if op == "copy" else lib2[1][0]
                    with open(pin, "w") as f:
                        f.write(t2)
                    if os.path.exists(pout):
                        os.remove(pout)
                    rc2 = observe(run_cli, argv)
                    got2 = open(pout).read() if rc2[0] == "ok" and os.path.exists(pout) else None
                    if got2 != want2:
                        out.append(viol("cli-%s:differs:end-of-file" % tag, "transformer.main on a document ending in %s wrote something else than the library returns for that content" % tname,
                                        repr((got2 or "<no file>")[-60:]), repr(want2[-60:])))
                        break
        outcome += "+cli"
    return dict(nontrivial=changed, key=[text, op, cat, case.get("src"), case.get("dst"), case.get("column"), case.get("alphabet")], outcome=outcome, violations=out)
