"""C03 - reported base pairs are geometrically justified, edge-exclusive and maximal (forms S + E)."""
from mc import seams
from mc.engine import observe
from mc.props import ann_common as ac
from mc.props import ann_families as fam
from mc.props.common2d import viol
from mc.ref import refann

ID = "C03"
LEVEL = "exploration"
RULE = (
    "G1: two template nucleotides, the second placed on a lattice (centroid distance x bearing x in-plane rotation x face flip [x rise x tilt]) for "
    "9 (quick) / 15 (thorough) base combinations; G2: three nucleotides - every pair of coarse G1 placements that each gave a reported pair on the "
    "same edge of the central base; G3: every corpus structure x {identity, each nucleotide removed, each atom name removed everywhere, fixed jitter "
    "fields 0.05/0.2/0.5 A, 23 cube rotations}; G4 (form E): for G1/G2 structures with a reported interaction, the KD-tree pair set is handed to "
    "find_pairs in every explorer-chosen order (all permutations of <= 5 inter-residue pairs, else identity, reversal, every move-to-front and "
    "adjacent transposition, pairs of them in thorough). On every execution: each reported pair has >= 2 distinct donor-acceptor contacts on its "
    "edges within 4.0 A and 50-130 degrees off both normals and the right cis/trans letter (soundness), no (residue, edge) is used twice "
    "(exclusivity), every residue pair with >= 2 strict base-to-base contacts on an edge combination is reported with that class or has one of "
    "the two edges taken (completeness; margins < 1e-6 undecided). non-trivial = an interaction was reported or demanded; distinct = distinct structure/schedule."
)
ASSUMPTIONS = [
    "base normals are the cross products named in the anchors (N9,N7,N3 / N1,C4,O2); one-letter names come from the structure",
    "soundness is liberal (O2' admitted as donor or acceptor, thresholds widened by 1e-6); completeness is strict and excludes O2'",
    "schedule exploration can only add reach: the three invariants are order-independent truths",
]
_tier = ["quick"]
_seam = [False]
G3_Q = ["1HMH_1_E.cif", "6INQ.cif", "1DFU_1_M-N.cif", "4WTI_1_T-P.cif", "1E7K_1_C.cif", "1E7K_1_C_modified.cif", "1A1T_1_B.cif", "1JJP.cif"]
G3_T = G3_Q + ["184D.cif", "6FC9.cif", "4gqj-assembly1.cif", "1ATO.pdb", "6RS3.cif", "2HY9.cif", "488d.pdb", "q-ugg-5k-salt_400-500ns_frame1065.pdb", "1ehz-assembly-1.cif"]


def worker_init(tier):
    _tier[0] = tier
    import rnapolis.annotator as ann

    _seam[0] = seams.install_pair_order_seam(ann)


def BOUNDS(tier):
    q = tier == "quick"
    return dict(G1="%d base combinations x %s" % ((9, "6 r x 12 theta x 12 phi x 2 faces") if q else (15, "11 r x 18 theta x 18 phi x 2 faces x 3 rises x 2 tilts")),
                G2="pairs of the first %d committed seed placements per (central base, edge)" % (8 if q else 14), G3_files=len(G3_Q if q else G3_T),
                G4="schedules d<=%d on every %s G1 case and every G2 case with a reported interaction" % ((1, "16th") if q else (2, "12th")))


def g4_cases(tier):
    q = tier == "quick"
    step = 16 if q else 12
    for k, c in enumerate(fam.g1_pairs("quick")):
        if k % step == 0:
            yield dict(c, schedules=True)
    for k, c in enumerate(fam.g2("quick")):
        if k % 3 == 0:
            yield dict(c, schedules=True)


def families(tier):
    return [
        ("G1-lattice", lambda: fam.g1_pairs(tier), 64),
        ("G2-three-nucleotides", lambda: iter(fam.g2(tier)), 8),
        ("G3-corpus", lambda: fam.corpus_cases(tier, G3_Q, G3_T), 16),
        ("near-threshold", lambda: fam.near_threshold_cases(), 16),
        ("composed", lambda: fam.composed_cases(tier), 8),  # several independent placements in one structure (chains A, B, C; also listed in reverse chain order)
        ("G4-schedules", lambda: g4_cases(tier), 4),
        # one structure object with two models of different geometry, queried model 1, model 2, model 1 again
        ("two-models", lambda: fam.two_model_cases(fam.g1_pairs(tier), 13 if tier == "quick" else 7, 3), 8),
    ]




def run_two_models(case):
    from rnapolis.annotator import extract_base_interactions, find_pairs

    out = []
    s = fam.two_model_structure(case)
    m2 = dict(case["m2"], idmode=case["m1"].get("idmode", 0))
    mn0 = tuple(case.get("model_numbers", (1, 2)))
    judges = {mn0[0]: ac.PairJudge(refann.from_structure3d(fam.structure_of(case["m1"]))), mn0[1]: ac.PairJudge(refann.from_structure3d(fam.structure_of(m2)))}
    tot = [0, 0, 0]
    seen = []
    mn = tuple(case.get("model_numbers", (1, 2)))
    for step, m in enumerate((mn[0], mn[1], mn[0])):
        seams.PAIR_ORDER.fn = None
        r = observe(find_pairs, s, m)
        if r[0] == "exc":
            out.append(viol("find_pairs:model:" + r[1], "find_pairs(structure, %d) raised %s" % (m, r[2])))
            continue
        seen.append([(b.nt1.number, b.nt1.icode, b.nt2.number, b.nt2.icode, b.lw.value) for b in r[1][0]])
        res = judges[m].judge(r[1][0], out, ":other-model" if step else "")
        for k in range(3):
            tot[k] += res[k]
        if step == 1:
            r3 = observe(extract_base_interactions, s, m)
            if r3[0] == "ok":
                judges[m].judge(r3[1].basePairs, out, ":extract:other-model")
    if len(seen) == 3 and seen[0] != seen[2]:
        out.append(viol("pair:model-answer-changes", "find_pairs(structure, 1) answers differently after model 2 was queried on the same object", seen[2], seen[0]))
    u = {}
    for v in out:
        u.setdefault(v["signature"], v)
    return dict(nontrivial=bool(tot[0] or tot[1]), outcome="two-models reported=%d demanded=%d" % (min(tot[0], 3), min(tot[1], 3)), violations=list(u.values()), undecided=bool(tot[2]))


def run_case(case):
    from rnapolis.annotator import find_pairs

    if case["g"] == 4:
        return run_two_models(case)
    out = []
    s = fam.corpus_variant_structure(case) if case["g"] == 3 else fam.structure_of(case)
    seams.PAIR_ORDER.fn = None
    r = observe(find_pairs, s)
    if r[0] == "exc":
        return dict(nontrivial=True, outcome="exc", violations=[viol("find_pairs:" + r[1], "find_pairs raised " + r[2])])
    bps, bph, br = r[1]
    last_order = seams.PAIR_ORDER.last  # of this find_pairs call; later calls overwrite the seam's record
    pj = ac.PairJudge(refann.from_structure3d(s))
    nrep, ndem, und = pj.judge(bps, out)
    # the second observation point: the pairs inside the full annotation are judged in their own right
    from rnapolis.annotator import extract_base_interactions

    r3 = observe(extract_base_interactions, s, None)
    if r3[0] == "exc":
        out.append(viol("extract_base_interactions:" + r3[1], "extract_base_interactions raised " + r3[2]))
    else:
        pj.judge(r3[1].basePairs, out, ":extract")
    states = transitions = 0
    outcomes = {tuple(sorted((b.nt1.number, b.nt1.icode or "", b.nt2.number, b.nt2.icode or "", b.lw.value) for b in bps))}
    if case.get("schedules") and _seam[0] and (bps or bph or br) and last_order:
        natural, data, rr = last_order
        resof = {}
        for ri, res in enumerate(s.residues):
            for a in res.atoms:
                resof[(a.x, a.y, a.z)] = ri
        inter = [k for k, (i, j) in enumerate(natural) if resof.get(tuple(data[i])) != resof.get(tuple(data[j]))]
        # two deviations only where the number of inter-residue candidate pairs keeps the schedule count in the hundreds (k <= 12: at most ~600 schedules)
        dmax = 2 if (_tier[0] != "quick" and len(inter) <= 12) else 1
        for perm in fam.schedules(natural, inter, dmax):
            order = fam.apply_schedule(natural, inter, perm)
            seams.PAIR_ORDER.fn = lambda nat, d, order=order: order
            r2 = observe(find_pairs, s)
            seams.PAIR_ORDER.fn = None
            transitions += 1
            if r2[0] == "exc":
                out.append(viol("find_pairs-schedule:" + r2[1], "find_pairs raised %s under a permuted pair order" % r2[2]))
                continue
            b2 = r2[1][0]
            pj.judge(b2, out, ":schedule")
            outcomes.add(tuple(sorted((b.nt1.number, b.nt1.icode or "", b.nt2.number, b.nt2.icode or "", b.lw.value) for b in b2)))
        states = len(outcomes)
    u = {}
    for v in out:
        u.setdefault(v["signature"], v)
    key = None
    return dict(nontrivial=bool(nrep or ndem), outcome="reported=%d demanded=%d%s" % (min(nrep, 3), min(ndem, 3), " sched-outcomes=%d" % min(len(outcomes), 4) if case.get("schedules") else ""),
                violations=list(u.values()), undecided=bool(und), states=states, transitions=transitions, traces=transitions,
                extra=dict(reported_pairs=nrep, demanded_candidates=ndem, undecided_candidates=und))
